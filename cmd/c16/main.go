// C16: semantic action references ($name, $N, $$, ${x.offset}, ${x.endoffset}, ${first()...},
// ${last()...}, ${self[N]...}) bind to the right symbols in every expansion of a rule.
//
// Layer B (real compiler.Compile + gen.Generate + go build + generated parser). Rules are
// enumerated from a small rule-shape language (shape.go), simplest first: a body is a sequence of
// 1..3 items of a fixed catalogue (plain / optional / aliased symbols, optional groups, nested
// choices with a shared alias, multi-symbol aliases, lists with and without separators, sets, a
// (?= Z) lookahead, a typed nonterminal, a repeated symbol), with an end-of-rule action and
// mid-rule actions at no / one / every gap (including the gaps inside groups). Every action
// records every reference the rule as written makes visible to it. A second family puts two rules
// with IDENTICAL action texts in one grammar (the second one differs by a lookahead, or not at
// all), which is the situation in which the compiler shares extracted mid-rule nonterminals; a
// third family ("rebound names") pairs rules whose prefixes are permutations / re-aliasings of
// the same typed symbols before a mid-rule action with identical text, so that only the binding
// name -> position differs between the two.
//
// Terminals alternate between {int} (value 100+start offset) and {string} (value "s<start>"), the
// helper nonterminal P is {float64}, and every reference is recorded as %T:%v, so a reference
// asserted to the type of another symbol (e.g. of the other alternative of a choice sharing an
// alias) shows up as a zero value of the wrong type. Blanks between tokens vary, so values,
// offsets, end offsets and indices are pairwise distinguishable. The reference model computes, for every
// expansion of the rule as written (which optional parts are present, which alternative, how many
// list elements), what each recorded reference must print: the value / start / end of the symbol
// it names, or nil / -1 when that symbol is not part of the expansion.
//
// Violation keys:
//
//	binding:<end|mid|parent>:<name|alias|index|first|last|lhs|nonterm>.<value|offset|endoffset>:<present|absent>
//	    a recorded reference printed something else than the model says
//	midrule-dedupe:wrong-stack-slot     a binding mismatch in a mid-rule action whose extracted
//	    nonterminal is shared between places that differ by lookahead symbols only (diagnosed on the
//	    compiled grammar after the mismatch was observed)
//	adjacent-actions:generated-code-does-not-build, adjacent-actions:merged-code-resolved-in-later-scope
//	    an expansion leaves two actions next to each other (the model predicts which grammars)
//	first-last:internal-error-on-helper-symbol   first()/last() landing on an extracted action / lookahead
//	records:*, parser:*, generate:*, build:*      the sentence could not be evaluated at all
//
// Grammars with LALR conflicts (an artefact of the enumeration) are skipped and counted.
package main

import (
	"encoding/json"
	"fmt"
	"os"
	"sort"
	"strings"
	"time"

	"github.com/inspirer/textmapper/grammar"

	"verif/internal/core"
	"verif/internal/genharness"
)

const L = 5 // maximal sentence length of a rule body in tokens

func main() { core.Main("C16", "exploration", run, replay, nil) }

// ---- grammar specs

type wrec struct {
	Tag   string   `json:"tag"`
	Vals  []string `json:"vals"` // "*" = not specified
	pres  []string
	refs  []ref
	where string // end | mid | parent
}

type xcase struct {
	text string
	rule int
	want []wrec
}

type gspec struct {
	desc     string
	rules    []*rule
	prefix   []string
	tm       string
	cases    []xcase
	adj      bool // some expansion has two actions with nothing between them
	flHelper bool // some recorded first()/last() can land on an extracted action / lookahead
	absent   bool // some exercised expansion lacks a symbol of the rule as written
	hasMid   bool
	items    int
	rank     int // batches are formed in rank order (then simplest first)
	// tmpl: the single rule is the body of a %flag template T<F> instantiated from the input rule
	tmpl *tmplSpec
	// noNtTypes: no nonterminal has a type (only terminals do)
	noNtTypes bool
}

// tmplSpec describes the input rule of a template grammar: S: P<list> tz T<inst0> T<inst1> ...
type tmplSpec struct {
	list      string   // "", "+", "*": how the helper nonterminal P appears in the input rule
	insts     []string // "+F" / "~F" per instance of T
	declFirst bool     // P is declared before T (it keeps its number through instantiation)
}

func (g *gspec) ruleTexts() string {
	var parts []string
	for _, r := range g.rules {
		parts = append(parts, r.name+": "+plainText(r.body))
	}
	return strings.Join(parts, " ;  ")
}

// plainText prints the body with actions abbreviated (for messages).
func plainText(seq []*node) string {
	var parts []string
	for _, n := range seq {
		switch n.k {
		case kAct:
			parts = append(parts, "{"+n.tag+"}")
		case kOpt, kGroup, kChoice:
			var alts []string
			for _, a := range n.alts {
				alts = append(alts, plainText(a))
			}
			s := strings.Join(alts, " | ")
			if n.k == kOpt && !n.paren {
				parts = append(parts, s+"?")
				continue
			}
			s = "(" + s + ")"
			if n.k == kOpt {
				s += "?"
			}
			if n.alias != "" {
				s += "[" + n.alias + "]"
			}
			parts = append(parts, s)
		default:
			parts = append(parts, n.text())
		}
	}
	return strings.Join(parts, " ")
}

func collectTerms(seq []*node, into map[string]bool) {
	for _, n := range seq {
		switch n.k {
		case kSym:
			if n.sym == "P" {
				into["tp"], into["tq"] = true, true
			} else {
				into[n.sym] = true
			}
		case kList:
			for _, e := range n.elem {
				into[e] = true
			}
			if n.sep != "" {
				into[n.sep] = true
			}
		case kSet:
			for _, e := range n.set {
				into[e] = true
			}
		}
		for _, a := range n.alts {
			collectTerms(a, into)
		}
	}
}

func hasKind(seq []*node, k kind) bool {
	for _, n := range seq {
		if n.k == k {
			return true
		}
		for _, a := range n.alts {
			if hasKind(a, k) {
				return true
			}
		}
	}
	return false
}

// finish analyses the rules, prints the grammar and computes all cases. false = nothing to run.
func (g *gspec) finish(name string) bool {
	terms := map[string]bool{}
	look := false
	for i, r := range g.rules {
		r.name = fmt.Sprintf("R%d", i+1)
		r.analyse()
		collectTerms(r.body, terms)
		look = look || hasKind(r.body, kLook)
		g.hasMid = g.hasMid || r.hasMid
		g.adj = g.adj || adjacentActions(r.exps)
		g.flHelper = g.flHelper || r.flHelper
	}
	if len(g.rules) > 1 {
		terms["tz"] = true
	}
	var tl []string
	for t := range terms {
		tl = append(tl, t)
	}
	sort.Strings(tl)
	var sb strings.Builder
	fmt.Fprintf(&sb, "language %s(go);\n\npackage = \"scratch/%s\"\neventBased = true\n\n:: lexer\n\nWhiteSpace: /[ ]+/ (space)\n", name, name)
	for _, t := range tl {
		if termType(t) == "" {
			fmt.Fprintf(&sb, "%s: /%s/\n", t, t[1:])
		} else if termType(t) == "string" {
			fmt.Fprintf(&sb, "%s {string}: /%s/ { $$ = \"fmt\".Sprintf(\"s%%d\", l.tokenOffset) }\n", t, t[1:])
		} else {
			fmt.Fprintf(&sb, "%s {int}: /%s/ { $$ = 100 + l.tokenOffset }\n", t, t[1:])
		}
	}
	pRule := "P {float64}:\n    tp tq { $$ = float64(200+$tp) + 0.5 }\n;\n\n"
	switch {
	case g.tmpl != nil:
		r := g.rules[0]
		r.name = "T"
		terms["tp"], terms["tq"], terms["tz"] = true, true, true
		alt := "t" + string(rune('a'+len(tl))) // a terminal the body does not use
		for terms[alt] {
			alt = "t" + string(rune(alt[1]+1))
		}
		terms[alt] = true
		tl = tl[:0]
		for t := range terms {
			tl = append(tl, t)
		}
		sort.Strings(tl)
		sb.Reset()
		fmt.Fprintf(&sb, "language %s(go);\n\npackage = \"scratch/%s\"\neventBased = true\n\n:: lexer\n\nWhiteSpace: /[ ]+/ (space)\n", name, name)
		for _, t := range tl {
			if termType(t) == "" {
				fmt.Fprintf(&sb, "%s: /%s/\n", t, t[1:])
			} else if termType(t) == "string" {
				fmt.Fprintf(&sb, "%s {string}: /%s/ { $$ = \"fmt\".Sprintf(\"s%%d\", l.tokenOffset) }\n", t, t[1:])
			} else {
				fmt.Fprintf(&sb, "%s {int}: /%s/ { $$ = 100 + l.tokenOffset }\n", t, t[1:])
			}
		}
		sb.WriteString("\n:: parser\n\n%input S;\n\n%flag F;\n\nS {string}:\n    P" + g.tmpl.list + " tz")
		for _, in := range g.tmpl.insts {
			sb.WriteString(" T<" + in + ">")
		}
		sb.WriteString(" { \"scratch/rt\".Record(\"top\"); $$ = \"top\" }\n;\n\n")
		if g.tmpl.declFirst {
			sb.WriteString(pRule)
		}
		fmt.Fprintf(&sb, "T<F> {int}:\n    %s\n  | [F] %s { $$ = 0 }\n;\n\n", seqText(r.body), alt)
		if !g.tmpl.declFirst {
			sb.WriteString(pRule)
		}
	case g.noNtTypes:
		r := g.rules[0]
		fmt.Fprintf(&sb, "\n:: parser\n\n%%input S;\n\nS:\n    %s { \"scratch/rt\".Record(\"top %%T:%%v %%T:%%v %%T:%%v\", nil, nil, ${%s.offset}, ${%s.offset}, ${%s.endoffset}, ${%s.endoffset}) }\n;\n\n%s:\n    %s\n;\n\n", r.name, r.name, r.name, r.name, r.name, r.name, seqText(r.body))
	default:
		sb.WriteString("\n:: parser\n\n%input S;\n\nS {interface{}}:\n")
		for i, r := range g.rules {
			lead := "    "
			if i > 0 {
				lead = "  | "
			}
			pre := ""
			if g.prefix[i] != "" {
				pre = "t" + g.prefix[i] + " "
			}
			fmt.Fprintf(&sb, "%s%s%s { \"scratch/rt\".Record(\"top %%T:%%v %%T:%%v %%T:%%v\", $%s, $%s, ${%s.offset}, ${%s.offset}, ${%s.endoffset}, ${%s.endoffset}); $$ = $%s }\n", lead, pre, r.name, r.name, r.name, r.name, r.name, r.name, r.name, r.name)
		}
		sb.WriteString(";\n\n")
		for _, r := range g.rules {
			fmt.Fprintf(&sb, "%s {int}:\n    %s\n;\n\n", r.name, seqText(r.body))
		}
		if terms["tp"] {
			sb.WriteString(pRule)
		}
	}
	if look {
		fmt.Fprintf(&sb, "Z:\n    %s\n;\n", strings.Join(tl, " | "))
	}
	g.tm = sb.String()

	if g.tmpl != nil {
		g.templateCases()
		return len(g.cases) > 0
	}
	for ri, r := range g.rules {
		for _, e := range r.exps {
			nt := len(tokens(e))
			if nt > L {
				continue
			}
			present := map[int]bool{}
			for _, en := range e {
				if en.pos > 0 {
					present[en.pos] = true
				}
			}
			if len(present) < r.npos {
				g.absent = true
			}
			for _, sp := range spacings {
				text, placed, rs, re := place(g.prefix[ri], e, sp)
				var want []wrec
				endRan := false
				lhs := 0
				for i, en := range placed {
					if en.k != kAct {
						continue
					}
					vals, pres := r.expect(placed, i)
					where := "end"
					if en.act.mid {
						where = "mid"
					}
					want = append(want, wrec{Tag: en.act.tag, Vals: vals, pres: pres, refs: en.act.refs, where: where})
					if en.act.end {
						endRan, lhs = true, en.act.lhs
					}
				}
				top := wrec{Tag: "top", where: "parent", Vals: []string{wild, wild, wild}, pres: []string{"present", "present", "present"},
					refs: []ref{{Text: "$" + r.name, Class: "lhs.value"}, {Text: "${" + r.name + ".offset}", Class: "nonterm.offset"}, {Text: "${" + r.name + ".endoffset}", Class: "nonterm.endoffset"}}}
				if endRan {
					top.Vals[0] = fmt.Sprintf("int:%d", lhs)
				}
				if g.noNtTypes {
					top.Vals[0] = "<nil>:<nil>"
				}
				if rs >= 0 {
					top.Vals[1], top.Vals[2] = fmt.Sprintf("int:%d", rs), fmt.Sprintf("int:%d", re)
					// the range of a rule whose last stack symbol is empty (an empty list) ends where
					// that empty symbol was placed, i.e. at the next token; C16 does not cover this
					for i := len(placed) - 1; i >= 0; i-- {
						if placed[i].k == kAct {
							continue // trailing actions run as (part of) the end-of-rule action
						}
						if placed[i].empty || placed[i].k == kLook {
							top.Vals[2] = wild
						}
						break
					}
				}
				want = append(want, top)
				g.cases = append(g.cases, xcase{text: text, rule: ri, want: want})
			}
		}
	}
	return len(g.cases) > 0
}

// templateCases: every instance of T reduces one expansion of the rule; the i-th sentence gives
// instance k the (i+k)-th expansion. Each instance records what the rule's actions record, with
// the positions of that instance.
func (g *gspec) templateCases() {
	r := g.rules[0]
	var exps [][]entry
	for _, e := range r.exps {
		if n := len(tokens(e)); n > 0 && n <= L-1 {
			exps = append(exps, e)
		}
		present := map[int]bool{}
		for _, en := range e {
			if en.pos > 0 {
				present[en.pos] = true
			}
		}
		if len(present) < r.npos {
			g.absent = true
		}
	}
	prefix := map[string]string{"": "pq", "+": "pqpq", "*": "pq"}[g.tmpl.list] + "z"
	for i := range exps {
		for _, sp := range spacings {
			var all []entry
			var cut []int
			for k := range g.tmpl.insts {
				all = append(all, exps[(i+k)%len(exps)]...)
				cut = append(cut, len(all))
			}
			text, placed, _, _ := place(prefix, all, sp)
			var want []wrec
			from := 0
			for _, to := range cut {
				part := placed[from:to]
				for j, en := range part {
					if en.k != kAct {
						continue
					}
					vals, pres := r.expect(part, j)
					where := "end"
					if en.act.mid {
						where = "mid"
					}
					want = append(want, wrec{Tag: en.act.tag, Vals: vals, pres: pres, refs: en.act.refs, where: where})
				}
				from = to
			}
			want = append(want, wrec{Tag: "top", where: "parent"})
			g.cases = append(g.cases, xcase{text: text, want: want})
		}
	}
}

// ---- enumeration of the family

func selAll(gs []gap) map[int]bool {
	m := map[int]bool{}
	for i := range gs {
		m[i] = true
	}
	return m
}

func itemNames(items []int) string {
	var p []string
	for _, it := range items {
		p = append(p, catalogue[it].name)
	}
	return strings.Join(p, " ")
}

// makeRule builds one rule from catalogue items and an action placement; look >= 0 inserts a
// lookahead at that top-level index AFTER the actions were placed (so that tags and visible
// references stay identical to the rule without it). nil = not applicable.
func makeRule(items []int, sel func(gs []gap) map[int]bool, end bool, look int) *rule {
	body := buildBody(items)
	if body == nil {
		return nil
	}
	var m map[int]bool
	if sel != nil {
		m = sel(gaps(&body))
	}
	insertActions(&body, m, end, 9001)
	if look >= 0 {
		if look > len(body) {
			return nil
		}
		body = append(body[:look], append([]*node{{k: kLook}}, body[look:]...)...)
	}
	if !lookaheadsOK(body) {
		return nil
	}
	return &rule{body: body}
}

func tuples(n int, lim int, f func(t []int)) {
	t := make([]int, n)
	var rec func(i int)
	rec = func(i int) {
		if i == n {
			f(append([]int{}, t...))
			return
		}
		for v := 0; v < lim; v++ {
			t[i] = v
			rec(i + 1)
		}
	}
	rec(0)
}

func enumerate(quick bool) []*gspec {
	var out []*gspec
	seen := map[string]bool{}
	curItems, curRank := 0, 0
	var mode func(g *gspec) // set around add() for the special grammar modes
	add := func(desc string, rules ...*rule) {
		for _, r := range rules {
			if r == nil {
				return
			}
		}
		g := &gspec{desc: desc, rules: rules, items: curItems, rank: curRank}
		if mode != nil {
			mode(g)
		}
		for i := range rules {
			if i == 0 {
				g.prefix = append(g.prefix, "")
			} else {
				g.prefix = append(g.prefix, "z")
			}
		}
		if !g.finish("gNAME") {
			return
		}
		// the same text can arise from different tuples (e.g. no gap selected): keep the first
		if seen[g.tm] {
			return
		}
		seen[g.tm] = true
		out = append(out, g)
	}
	single := func(items []int, v int) {
		curItems = len(items)
		body := buildBody(items)
		if body == nil {
			return
		}
		ng := len(gaps(&body))
		nm := itemNames(items)
		if v&vEnd != 0 {
			add(nm+" / end action only", makeRule(items, nil, true, -1))
		}
		// the largest placement (greedy, left to right) in which no expansion puts two actions
		// next to each other
		greedy := greedySel(items, true)
		if v&vGreedy != 0 {
			add(nm+" / actions at every gap that cannot become adjacent to another action", makeRule(items, func([]gap) map[int]bool { return greedy }, true, -1))
		}
		if v&vAll != 0 {
			add(nm+" / actions at every gap", makeRule(items, selAll, true, -1))
		}
		if v&vSingles != 0 {
			for gi := 0; gi < ng; gi++ {
				gi := gi
				add(fmt.Sprintf("%s / mid-rule action at gap %d", nm, gi), makeRule(items, func([]gap) map[int]bool { return map[int]bool{gi: true} }, true, -1))
			}
		}
		if v&vFL != 0 {
			add(nm+" / actions at every non-adjacent gap, first()/last() recorded everywhere", forceFL(makeRule(items, func([]gap) map[int]bool { return greedy }, true, -1)))
		}
		if v&vMidOnly != 0 {
			g2 := greedySel(items, false)
			add(nm+" / actions at every non-adjacent gap, no end action", makeRule(items, func([]gap) map[int]bool { return g2 }, false, -1))
		}
	}
	pairs := func(items []int, alsoAll, full bool) {
		curItems = len(items)
		nm := itemNames(items)
		placements := []func([]gap) map[int]bool{func([]gap) map[int]bool { return greedySel(items, true) }}
		if alsoAll {
			placements = append(placements, selAll)
		}
		for _, sel := range placements {
			base := makeRule(items, sel, true, -1)
			if base == nil || !hasTopMid(base.body) {
				continue
			}
			add(nm+" / two identical rules", noFL(makeRule(items, sel, true, -1)), noFL(makeRule(items, sel, true, -1)))
			for li := 0; li <= len(base.body); li++ {
				// directly before or after a top-level mid-rule action
				before := li < len(base.body) && base.body[li].k == kAct && !base.body[li].end
				after := li > 0 && base.body[li-1].k == kAct
				if !before && !(after && full) {
					continue
				}
				add(fmt.Sprintf("%s / same rule twice, second with a lookahead at %d", nm, li), noFL(makeRule(items, sel, true, -1)), noFL(makeRule(items, sel, true, li)))
				if full {
					add(fmt.Sprintf("%s / same rule twice, first with a lookahead at %d", nm, li), noFL(makeRule(items, sel, true, li)), noFL(makeRule(items, sel, true, -1)))
				}
			}
		}
	}
	// templates: the body (catalogue items, maximal non-adjacent action placement) becomes the
	// rule of a %flag template T<F>, instantiated from the input rule next to a list of P
	templates := func(items []int, lists []string, insts [][]string, decl []bool) {
		curItems = len(items) + 2
		for _, l := range lists {
			for _, in := range insts {
				for _, d := range decl {
					greedy := greedySel(items, true)
					r := makeRule(items, func([]gap) map[int]bool { return greedy }, true, -1)
					if r == nil || len(r.body) == 0 || nullableSeq(r.body) {
						continue
					}
					mode = func(g *gspec) { g.tmpl = &tmplSpec{list: l, insts: in, declFirst: d} }
					add(fmt.Sprintf("%s / template T<F> with instances %v, input rule P%s tz T..., P declared first=%v", itemNames(items), in, l, d), r)
					mode = nil
				}
			}
		}
	}
	// a grammar in which only terminals are typed
	typedTerminalsOnly := func() {
		curItems = 1
		body := []*node{S("ta"), {k: kAct, tag: "e"}}
		mode = func(g *gspec) { g.noNtTypes = true }
		add("s / end action only, no nonterminal has a type", &rule{body: body})
		mode = nil
	}
	idx := func(names ...string) []int {
		var t []int
		for _, n := range names {
			found := false
			for i, c := range catalogue {
				if c.name == n {
					t = append(t, i)
					found = true
				}
			}
			if !found {
				panic("no item " + n)
			}
		}
		return t
	}
	// Sentinels (rank -1): one or two of the most telling grammars of every family, run as the very
	// first batch so that even a run cut short by the budget on a loaded machine has seen each
	// family once. (The same grammars are skipped as duplicates when their family comes up.)
	curRank = -1
	templates(idx("P", "s"), []string{"+"}, [][]string{{"+F", "~F"}}, []bool{true})
	curItems = 3
	rebound(add, "ta", "tc", "te", false)
	single(idx("(s|s)[x]"), vEnd)
	single(idx("(s s?)[x]"), vEnd)
	single(idx("s?", "s"), vGreedy)
	single(idx("s", "(s separator s)*[x]", "s"), vEnd)
	single(idx("s", "U"), vEnd)
	typedTerminalsOnly()
	curRank = 0
	if quick {
		// 1 item: whole catalogue; single-gap placements for the reduced catalogue only
		tuples(1, len(catalogue), func(t []int) {
			v := vEnd | vGreedy | vAll
			if t[0] < reducedCatalogue {
				v |= vSingles | vMidOnly
			}
			if t[0] == 0 {
				v |= vFL
			}
			single(t, v)
		})
		// pairs sharing action texts
		curRank = 1
		curItems = 3
		rebound(add, "ta", "tc", "te", true)
		pairs(idx("s", "s"), false, true)
		for _, t := range [][]int{idx("s?", "s"), idx("(s|s)[x]", "s"), idx("s+[x]", "s"), idx("s", "s", "s")} {
			pairs(t, false, false)
		}
		// 2 items: reduced catalogue, maximal non-adjacent placement
		curRank = 2
		tuples(2, reducedCatalogue, func(t []int) {
			v := vGreedy
			if t[0] <= 1 && t[1] <= 1 {
				v |= vAll | vSingles
			}
			single(t, v)
		})
		for _, t := range [][]int{idx("s", "dup"), idx("s?", "(s|s s)"), idx("s", "set(s|s)[x]"), idx("s?", "(s separator s)+"), idx("s*[x]", "s"), idx("s", "(s (s|s)?)?"), idx("(s?|P)[x]", "s"), idx("s", "(s separator s)*[x]"), idx("(s separator s)*[x]", "s")} {
			single(t, vGreedy)
		}
		// 3 items with a lookahead in the middle
		for _, a := range []string{"s", "s?", "(s|s)[x]"} {
			for _, b := range []string{"s", "P"} {
				single(idx(a, "(?=Z)", b), vGreedy)
			}
		}
		single(idx("s", "(?=Z)", "s"), vFL)
		// the untyped terminal after / before / instead of a typed one
		curRank = 1
		single(idx("s", "U"), vEnd|vGreedy)
		single(idx("s?", "U"), vEnd)
		// first() on a leading lookahead (known finding first-last)
		single(idx("(?=Z)", "s"), vFL)
		add("(?=Z) s / end action only, first()/last() recorded", forceFL(makeRule(idx("(?=Z)", "s"), nil, true, -1)))
		typedTerminalsOnly()
		// templates
		templates(idx("P", "s"), []string{"+"}, [][]string{{"+F", "~F"}}, []bool{true})
		templates(idx("s", "P"), []string{"+"}, [][]string{{"+F", "~F"}}, []bool{false})
		templates(idx("P?", "s"), []string{"*"}, [][]string{{"~F", "+F"}}, []bool{true})
		curRank = 2
		// a separated * list in the middle (neither first() nor last() of any action)
		single(idx("s", "(s separator s)*[x]", "s"), vEnd)
		single(idx("s", "s?", "s"), vGreedy|vAll)
		single(idx("s?", "s", "dup"), vGreedy)
		return out
	}
	tuples(1, len(catalogue), func(t []int) { single(t, vEnd|vGreedy|vAll|vSingles|vMidOnly|vFL) })
	curRank = 1
	curItems = 3
	rebound(add, "ta", "tc", "te", true)
	rebound(add, "tb", "td", "te", true)
	rebound(add, "ta", "tc", "tb", true)
	rebound(add, "tb", "td", "tf", true)
	tuples(2, 3, func(t []int) { pairs(t, false, true) })
	curRank = 2
	tuples(2, len(catalogue), func(t []int) {
		v := vEnd | vGreedy | vAll
		if t[0] < reducedCatalogue && t[1] < reducedCatalogue {
			v |= vSingles | vMidOnly | vFL
		}
		single(t, v)
	})
	typedTerminalsOnly()
	for _, t := range [][]int{idx("P", "s"), idx("s", "P"), idx("P?", "s"), idx("s", "P?"), idx("P", "s?"), idx("(s|P)[x]", "s"), idx("P", "(s|s)[x]"), idx("s", "P", "s")} {
		templates(t, []string{"+", "*", ""}, [][]string{{"+F", "~F"}, {"~F", "+F"}, {"+F"}, {"+F", "~F", "+F"}}, []bool{true, false})
	}
	curRank = 3
	tuples(2, reducedCatalogue, func(t []int) { pairs(t, true, true) })
	curRank = 4
	tuples(3, reducedCatalogue, func(t []int) { single(t, vGreedy) })
	curRank = 5
	tuples(3, 3, func(t []int) { pairs(t, false, true) })
	return out
}

const (
	vEnd = 1 << iota
	vGreedy
	vAll
	vSingles
	vMidOnly
	vFL
)

// greedySel selects gaps left to right, keeping a gap only if no expansion of the resulting rule
// has two actions with nothing between them.
func greedySel(items []int, end bool) map[int]bool {
	body := buildBody(items)
	if body == nil {
		return nil
	}
	ng := len(gaps(&body))
	sel := map[int]bool{}
	for gi := 0; gi < ng; gi++ {
		sel[gi] = true
		cp := map[int]bool{}
		for k := range sel {
			cp[k] = true
		}
		body := buildBody(items)
		insertActions(&body, cp, end, 9001)
		if adjacentActions(expandSeq(body)) {
			delete(sel, gi)
		}
	}
	return sel
}

// rebound builds the family "two identical mid-rule actions over rebound names": pairs of rules
// whose prefixes consist of the same typed symbols, permuted or re-aliased, followed by a mid-rule
// action with byte-identical text (names listed alphabetically), a last symbol and the end
// action. Stack depth, positions present and the type of every position agree between the two
// rules; only the binding name -> position differs. sA/sB are two terminals of the same type.
func rebound(add func(desc string, rules ...*rule), sA, sB, sC string, full bool) {
	sym := func(s, alias string) *node { return &node{k: kSym, sym: s, alias: alias} }
	opt := func(n *node) *node { return &node{k: kOpt, alts: [][]*node{{n}}} }
	mk := func(prefix ...*node) *rule {
		body := append(prefix, sym(sC, ""))
		n := len(prefix)
		insertActions(&body, map[int]bool{n: true}, true, 9001)
		return &rule{body: body, byName: true}
	}
	ty := termType(sA)
	add(fmt.Sprintf("rebound names, %s / two symbols permuted", ty), mk(sym(sA, ""), sym(sB, "")), mk(sym(sB, ""), sym(sA, "")))
	add(fmt.Sprintf("rebound names, %s / aliases swapped", ty), mk(sym(sA, "x"), sym(sB, "y")), mk(sym(sA, "y"), sym(sB, "x")))
	add(fmt.Sprintf("rebound names, %s / alias moved onto an optional symbol", ty), mk(sym(sA, "x"), opt(sym(sB, ""))), mk(sym(sA, ""), opt(sym(sB, "x"))))
	if !full {
		return
	}
	add(fmt.Sprintf("rebound names, %s / alias moved to the other symbol", ty), mk(sym(sA, "x"), sym(sB, "")), mk(sym(sA, ""), sym(sB, "x")))
	add(fmt.Sprintf("rebound names, %s / optional symbols permuted", ty), mk(opt(sym(sA, "")), sym(sB, "")), mk(opt(sym(sB, "")), sym(sA, "")))
	add(fmt.Sprintf("rebound names, %s / same symbol twice, aliases swapped", ty), mk(sym(sA, "x"), sym(sA, "y")), mk(sym(sA, "y"), sym(sA, "x")))
}

func noFL(r *rule) *rule {
	if r != nil {
		r.noFL = true
	}
	return r
}

func forceFL(r *rule) *rule {
	if r != nil {
		r.forceFL = true
	}
	return r
}

func hasTopMid(body []*node) bool {
	for _, n := range body {
		if n.k == kAct && !n.end {
			return true
		}
	}
	return false
}

// ---- running

type rCase struct {
	Kind  string     `json:"kind"` // bind | generate | build
	Rules string     `json:"rules"`
	TM    string     `json:"tm"`
	Text  string     `json:"text,omitempty"`
	Want  [][]string `json:"want,omitempty"` // expected records, "*" = any
}

func wantRecords(w []wrec) [][]string {
	var out [][]string
	for _, r := range w {
		out = append(out, append([]string{r.Tag}, r.Vals...))
	}
	return out
}

// sharedMidRuleAtDifferentDepths inspects the compiled grammar (diagnosis only, after a black-box
// mismatch was observed): is there an extracted mid-rule nonterminal that is used with different
// numbers of preceding right-hand-side symbols, where the difference consists of lookahead
// nonterminals only (symbols that occupy a stack slot but have no position in the rule)? Its code
// addresses the stack relative to one depth. Sharing at depths that differ for any other reason
// is a different failure and is reported under the generic binding keys.
func sharedMidRuleAtDifferentDepths(g *grammar.Grammar) (string, bool) {
	if g == nil || g.Parser == nil {
		return "", false
	}
	extracted := map[int]bool{}
	for _, r := range g.Parser.Rules {
		if len(r.RHS) == 0 && r.Action > 0 && r.Action < len(g.Parser.Actions) && strings.Contains(g.Syms[r.LHS].Name, "$") {
			extracted[int(r.LHS)] = true
		}
	}
	type use struct {
		depth, lookaheads int
		in                string
	}
	uses := map[int][]use{}
	for _, r := range g.Parser.Rules {
		k, la := 0, 0
		for _, s := range r.RHS {
			if s.IsStateMarker() {
				continue
			}
			if extracted[int(s)] {
				uses[int(s)] = append(uses[int(s)], use{k, la, g.Syms[r.LHS].Name})
			}
			if strings.HasPrefix(g.Syms[s].Name, "lookahead_") {
				la++
			}
			k++
		}
	}
	var syms []int
	for s := range uses {
		syms = append(syms, s)
	}
	sort.Ints(syms)
	for _, s := range syms {
		us := uses[s]
		for i := range us {
			for j := i + 1; j < len(us); j++ {
				if us[i].depth != us[j].depth && us[i].depth-us[i].lookaheads == us[j].depth-us[j].lookaheads {
					return fmt.Sprintf("extracted nonterminal %s is shared: used after %d stack symbol(s) in %s and after %d in %s (the difference are lookahead nonterminals, which have no position)",
						g.Syms[s].Name, us[i].depth, us[i].in, us[j].depth, us[j].in), true
				}
			}
		}
	}
	return "", false
}

// compare returns ("", "") or (key, message).
func compare(want []wrec, res genharness.Result, g *grammar.Grammar) (key, msg string, compared int, classes map[string]int) {
	classes = map[string]int{}
	diag, shared := sharedMidRuleAtDifferentDepths(g)
	if res.Panic != "" || res.Hang || res.Aborted {
		if shared {
			return "midrule-dedupe:wrong-stack-slot", "generated parser crashed (" + firstLine(res.Panic) + "); " + diag, 0, classes
		}
		return "parser:crash-or-hang", fmt.Sprintf("panic=%q hang=%v aborted=%v", firstLine(res.Panic), res.Hang, res.Aborted), 0, classes
	}
	if !res.Accept {
		return "parser:sentence-rejected", fmt.Sprintf("the generated parser rejects the sentence at offset %d", res.ErrOff), 0, classes
	}
	for i, w := range want {
		if i >= len(res.Values) {
			return "records:action-not-executed", fmt.Sprintf("action %q did not run; recorded %q", w.Tag, res.Values), compared, classes
		}
		f := strings.Fields(res.Values[i])
		if len(f) != len(w.Vals)+1 || f[0] != w.Tag {
			return "records:unexpected-action", fmt.Sprintf("record %d is %q, expected action %q with %d values", i, res.Values[i], w.Tag, len(w.Vals)), compared, classes
		}
		for j, v := range w.Vals {
			if v == wild {
				continue
			}
			compared++
			classes[w.where+"/"+w.refs[j].Class+"/"+w.pres[j]]++
			if f[j+1] != v {
				if w.refs[j].untyped {
					return "untyped-terminal:stale-lexer-value", fmt.Sprintf("action %s (%s): %s names an untyped terminal (no type, no lexer action, hence no value) but evaluates to %s, must be %s", w.Tag, w.where, w.refs[j].Text, f[j+1], v), compared, classes
				}
				if w.where == "mid" && shared {
					return "midrule-dedupe:wrong-stack-slot", fmt.Sprintf("mid-rule action %s: %s evaluates to %s, must be %s; %s", w.Tag, w.refs[j].Text, f[j+1], v, diag), compared, classes
				}
				return fmt.Sprintf("binding:%s:%s:%s", w.where, w.refs[j].Class, w.pres[j]),
					fmt.Sprintf("action %s (%s): %s evaluates to %s, must be %s (symbol %s in this expansion)", w.Tag, w.where, w.refs[j].Text, f[j+1], v, w.pres[j]), compared, classes
			}
		}
	}
	if len(res.Values) > len(want) {
		return "records:unexpected-action", fmt.Sprintf("extra records %q", res.Values[len(want):]), compared, classes
	}
	return "", "", compared, classes
}

func firstLine(s string) string {
	if i := strings.IndexByte(s, '\n'); i >= 0 {
		return s[:i]
	}
	return s
}

func isConflict(genErr string) bool {
	return strings.Contains(genErr, "conflict")
}

func run(c *core.Ctx) {
	c.Rule("one grammar = one rule body of 1..3 catalogue items (19 item shapes: plain/optional/aliased symbol, optional group, choice with shared alias, " +
		"multi-symbol aliases, +/* lists with and without separator, set, (?= Z) lookahead, typed nonterminal, nested optional/choice, repeated symbol) x one action placement " +
		"(end action only / mid-rule actions at every gap that cannot become adjacent to another action / at every gap incl. the gaps inside groups / at one gap / no end action / first()+last() everywhere), " +
		"or a pair of rules with identical action texts (second rule identical or with a lookahead next to a mid-rule action); each action records every reference visible to it; " +
		"every expansion of the rule as written with <= 5 tokens (lists 0..2 elements) x 2 blank patterns is parsed by the generated parser; " +
		"evaluation = one recorded reference value compared with the model; a grammar is non-trivial when it was built and run, has a mid-rule action and an exercised expansion in which a symbol of the rule is absent")
	c.Assume("scratch/rt.Record with %T:%v and lexer actions computing {int}/{string} values from l.tokenOffset make token values and their asserted types observable; S: R {record $R} observes $$")
	c.Assume("conventions without prose documentation are taken from the implementation: 0-based $N, name#k for repeated names, names scoped per parenthesised alternative; " +
		"values of lists/sets and first()/last() landing on an extracted action or lookahead are not specified and are left out; an empty * list is present and sits at the next token (template: offset = endoffset = p.next.offset)")
	specs := enumerate(c.Quick())
	c.Set("grammars_enumerated", len(specs))
	if os.Getenv("C16_LIST") != "" { // debugging aid: print the family and stop
		for i, g := range specs {
			fmt.Printf("%4d adj=%v mid=%v absent=%v cases=%d  %s   [%s]\n", i, g.adj, g.hasMid, g.absent, len(g.cases), g.ruleTexts(), g.desc)
		}
		if os.Getenv("C16_LIST") == "tm" {
			for _, g := range specs {
				fmt.Println(g.tm)
			}
		}
		return
	}
	// Grammars that can put two actions next to each other go into batches of their own: the
	// generated code for those does not build at present (finding adjacent-actions), and one
	// failing package costs a rebuild of the whole batch.
	// Order: the sentinels, single rules of one item, then the pairs / templates / untyped terminal,
	// then the rest (each simplest first), so that a run cut short by the budget has still seen
	// every family.
	var order []*gspec
	var cuts []int // batch boundaries that must be respected (indices into order)
	// a tiny leading batch with the three simplest adjacency grammars, so that this family is seen
	// even when the budget cuts the run short
	for _, g := range specs {
		if !g.adj && g.rank == -1 {
			order = append(order, g)
		}
	}
	cuts = append(cuts, len(order))
	lead := map[*gspec]bool{}
	for _, g := range specs {
		if g.adj && g.rank == 0 && len(lead) < 3 {
			lead[g] = true
			order = append(order, g)
		}
	}
	cuts = append(cuts, len(order))
	for rank := 0; rank <= 5; rank++ {
		for _, g := range specs {
			if !g.adj && g.rank == rank {
				order = append(order, g)
			}
		}
	}
	cuts = append(cuts, len(order))
	for _, g := range specs {
		if g.adj && !lead[g] {
			order = append(order, g)
		}
	}
	batch := 64
	var evals, nontrivial, built int64
	classes := map[string]int{}
	for start := 0; start < len(order); {
		if c.Expired() {
			c.Capped(fmt.Sprintf("stopped after %d of %d grammars (budget)", start, len(order)))
			break
		}
		end := min(start+batch, len(order))
		for _, cut := range cuts {
			if start < cut && end > cut {
				end = cut
			}
		}
		var hs []genharness.Spec
		for i := start; i < end; i++ {
			g := order[i]
			name := fmt.Sprintf("g%04d", i)
			tm := strings.ReplaceAll(g.tm, "gNAME", name)
			var cases []genharness.Case
			for _, cs := range g.cases {
				cases = append(cases, genharness.Case{Text: cs.text, Mode: "parse"})
			}
			hs = append(hs, genharness.Spec{Name: name, TM: tm, Cases: cases})
		}
		t0 := time.Now()
		outs, err := genharness.RunBatch(hs, genharness.BatchOpts{})
		if os.Getenv("C16_TIMING") != "" {
			fmt.Fprintf(os.Stderr, "batch %d..%d: %v\n", start, end, time.Since(t0))
		}
		if err != nil {
			c.Violate("harness:build", err.Error(), nil)
			return
		}
		for bi, out := range outs {
			g := order[start+bi]
			tm := hs[bi].TM
			switch {
			case out.GenPanic != "":
				c.Violate("generate:panic:"+core.PanicSite(fmt.Errorf("%s", out.GenPanic)), fmt.Sprintf("%s  [%s]: %s", g.ruleTexts(), g.desc, firstLine(out.GenPanic)), rCase{Kind: "generate", Rules: g.ruleTexts(), TM: tm})
				continue
			case out.GenErr != "" && isConflict(out.GenErr):
				c.Add("grammars_with_lalr_conflicts_skipped", 1)
				continue
			case out.GenErr != "" && g.flHelper && strings.Contains(out.GenErr, "internal error: cannot find the position for index"):
				c.Violate("first-last:internal-error-on-helper-symbol", fmt.Sprintf("%s  [%s]: ${first()...} / ${last()...} in an action whose first / last preceding stack symbol is an extracted mid-rule action or a lookahead: %s", g.ruleTexts(), g.desc, out.GenErr), rCase{Kind: "generate", Rules: g.ruleTexts(), TM: tm})
				continue
			case out.GenErr != "" && g.adj && strings.Contains(out.GenErr, "invalid reference"):
				c.Violate("adjacent-actions:merged-code-resolved-in-later-scope", fmt.Sprintf("%s  [%s]: an expansion puts two actions next to each other; their code is concatenated and resolved with the names visible to the later one only: %s", g.ruleTexts(), g.desc, out.GenErr), rCase{Kind: "generate", Rules: g.ruleTexts(), TM: tm})
				continue
			case out.GenErr != "":
				c.Violate("generate:error", fmt.Sprintf("%s  [%s]: %s", g.ruleTexts(), g.desc, out.GenErr), rCase{Kind: "generate", Rules: g.ruleTexts(), TM: tm})
				continue
			case out.BuildErr != "" && g.noNtTypes && strings.Contains(out.BuildErr, "value"):
				c.Violate("typed-terminals-only:generated-code-does-not-build", fmt.Sprintf("%s  [%s]: typed terminals referenced by value, no typed nonterminal: stackEntry is generated without its value field: %s", g.ruleTexts(), g.desc, firstLine(strings.TrimPrefix(out.BuildErr, "# scratch/"+out.Name+"\n"))), rCase{Kind: "build", Rules: g.ruleTexts(), TM: tm})
				continue
			case out.BuildErr != "":
				if g.adj && strings.Contains(out.BuildErr, "syntax error: unexpected {") {
					c.Violate("adjacent-actions:generated-code-does-not-build", fmt.Sprintf("%s  [%s]: an expansion puts two actions next to each other; their code is concatenated as `{...}{...}`: %s", g.ruleTexts(), g.desc, firstLine(strings.TrimPrefix(out.BuildErr, "# scratch/"+out.Name+"\n"))), rCase{Kind: "build", Rules: g.ruleTexts(), TM: tm})
				} else {
					c.Violate("build:generated-code-does-not-build", fmt.Sprintf("%s  [%s]: %s", g.ruleTexts(), g.desc, out.BuildErr), rCase{Kind: "build", Rules: g.ruleTexts(), TM: tm})
				}
				continue
			}
			built++
			var ge int64
			for ci, cs := range g.cases {
				key, msg, n, cl := compare(cs.want, out.Results[ci], out.Grammar)
				ge += int64(n)
				for k, v := range cl {
					classes[k] += v
				}
				if key != "" {
					c.Violate(key, fmt.Sprintf("%s  [%s] on %q: %s", g.ruleTexts(), g.desc, cs.text, msg),
						rCase{Kind: "bind", Rules: g.ruleTexts(), TM: tm, Text: cs.text, Want: wantRecords(cs.want)})
				}
			}
			evals += ge
			if g.hasMid && g.absent {
				nontrivial++
			}
			if c.SampleCount() < 8 && g.hasMid && g.absent {
				c.Sample(map[string]any{"rules": g.ruleTexts(), "variant": g.desc, "sentences": len(g.cases), "first": g.cases[0].text})
			}
		}
		start = end
	}
	c.Eval(evals)
	c.Nontrivial(nontrivial)
	c.Set("grammars_built_and_run", built)
	c.Set("sentence_length_bound", L)
	keys := make([]string, 0, len(classes))
	for k := range classes {
		keys = append(keys, k)
	}
	sort.Strings(keys)
	for _, k := range keys {
		c.Outcome(k, int64(classes[k]))
	}
}

// replay re-runs one recorded (grammar text, input) case.
func replay(c *core.Ctx, raw json.RawMessage) error {
	var k rCase
	if err := json.Unmarshal(raw, &k); err != nil {
		return err
	}
	name := "g0000"
	if i := strings.Index(k.TM, "language "); i >= 0 {
		if j := strings.Index(k.TM[i:], "("); j > 0 {
			name = k.TM[i+len("language ") : i+j]
		}
	}
	outs, err := genharness.RunBatch([]genharness.Spec{{Name: name, TM: k.TM, Cases: []genharness.Case{{Text: k.Text, Mode: "parse"}}}}, genharness.BatchOpts{})
	if err != nil {
		return err
	}
	o := outs[0]
	if os.Getenv("C16_DUMP") != "" {
		src := o.Files["parser.go"]
		if i := strings.Index(src, "func (p *Parser) applyRule"); i >= 0 {
			fmt.Println(src[i:])
		}
		fmt.Printf("generr=%q genpanic=%q builderr=%q\n", o.GenErr, firstLine(o.GenPanic), o.BuildErr)
		for _, r := range o.Results {
			fmt.Printf("accept=%v values=%q panic=%q\n", r.Accept, r.Values, firstLine(r.Panic))
		}
	}
	if o.GenPanic != "" {
		return fmt.Errorf("generate panics: %s", firstLine(o.GenPanic))
	}
	if o.GenErr != "" {
		if isConflict(o.GenErr) {
			return nil
		}
		return fmt.Errorf("generate fails: %s", o.GenErr)
	}
	if o.BuildErr != "" {
		return fmt.Errorf("generated code does not build: %s", o.BuildErr)
	}
	if k.Kind != "bind" && k.Kind != "" {
		return nil
	}
	if len(k.Want) == 0 {
		return nil
	}
	res := o.Results[0]
	if res.Panic != "" || res.Hang || res.Aborted {
		return fmt.Errorf("generated parser crashed: %s", firstLine(res.Panic))
	}
	if !res.Accept {
		return fmt.Errorf("sentence rejected at offset %d", res.ErrOff)
	}
	if len(res.Values) != len(k.Want) {
		return fmt.Errorf("recorded %q, expected %d records", res.Values, len(k.Want))
	}
	for i, w := range k.Want {
		f := strings.Fields(res.Values[i])
		if len(f) != len(w) {
			return fmt.Errorf("record %d is %q, expected %q", i, res.Values[i], w)
		}
		for j := range w {
			if w[j] != wild && w[j] != f[j] {
				return fmt.Errorf("record %d is %q, expected %q (field %d)", i, res.Values[i], strings.Join(w, " "), j)
			}
		}
	}
	return nil
}
