package main

// The rule-shape language of C16, its printer (.tm text), its expansion enumerator and the
// reference model ("extsem") of what every $-reference of every action must evaluate to.
//
// Everything here is written from the language description alone (which symbol of the rule AS
// WRITTEN a reference names); it never looks at the expanded rules, stack layouts or Remap tables
// of the code under test.
//
// Conventions taken from the implementation / its only examples (parsers/test/test.tm), because no
// prose documentation of the reference syntax exists:
//   * positions are counted over the rule as written, in source order, one per symbol reference,
//     list and set, across all nested alternatives; a list body does not contribute positions;
//   * $N and ${self[N]...} are 0-based (test.tm: `${self[0].offset}` is the first symbol);
//   * a symbol name used twice in one rule is addressed as name#0, name#1 (in order);
//   * inside a parenthesised group an action sees only the names introduced inside that group
//     (names are scoped per nested alternative), but every position allocated so far;
//   * mid-rule actions see only what precedes them.

import (
	"fmt"
	"sort"
	"strings"
)

type kind int

const (
	kSym kind = iota
	kOpt
	kGroup
	kChoice
	kList
	kSet
	kLook
	kAct
)

type node struct {
	k     kind
	sym   string    // kSym
	alias string    // kSym, kGroup, kChoice, kList, kSet
	alts  [][]*node // kOpt, kGroup: one; kChoice: several
	paren bool      // kOpt printed with parentheses (own name scope)
	elem  []string  // kList: element symbols
	sep   string    // kList
	star  bool      // kList
	set   []string  // kSet
	pos   int       // kSym, kList, kSet: 1-based position in the rule as written
	tag   string    // kAct
	end   bool      // kAct: the designated end-of-rule action (assigns $$)
	lhs   int       // kAct/end: value assigned to $$
	refs  []ref     // kAct: references recorded by the action (filled by analyse)
	mid   bool      // kAct: not the last element of the top-level sequence
}

// rule is one nonterminal with a single alternative as written.
type rule struct {
	name   string
	body   []*node
	npos   int           // number of positions
	posOf  map[int]*node // position -> node
	exps   [][]entry     // every expansion (lists bounded by 2 elements)
	hasMid bool
	// forceFL: record first()/last() even in actions where they can land on an extracted action
	// or lookahead nonterminal (the generator fails with an internal error on those at present)
	forceFL  bool
	noFL     bool // record no first()/last() at all (pairs: keeps the action texts of both rules identical)
	flHelper bool // some action records first()/last() that can land on such a helper symbol
	// byName: list the named references of an action in alphabetical order instead of position
	// order, so that two rules binding the same names to different positions get identical texts
	byName bool
}

// ---- references

type ref struct {
	Text  string // as written in the action
	Class string // key component: name.value, alias.offset, index.endoffset, first.offset ...
	sel   int    // 0 name, 1 position, 2 first(), 3 last()
	prop  int    // 0 value, 1 offset, 2 endoffset
	posns []int  // sel 0: positions covered by the name; sel 1: the position
	// untyped: a value reference that can only name the untyped terminal
	untyped bool
}

// ---- printing

func (n *node) text() string {
	switch n.k {
	case kSym:
		if n.alias != "" {
			return n.sym + "[" + n.alias + "]"
		}
		return n.sym
	case kOpt:
		if !n.paren {
			return seqText(n.alts[0]) + "?"
		}
		return "(" + seqText(n.alts[0]) + ")?"
	case kGroup, kChoice:
		var parts []string
		for _, a := range n.alts {
			parts = append(parts, seqText(a))
		}
		s := "(" + strings.Join(parts, " | ") + ")"
		if n.alias != "" {
			s += "[" + n.alias + "]"
		}
		return s
	case kList:
		q := "+"
		if n.star {
			q = "*"
		}
		var s string
		switch {
		case n.sep != "":
			s = "(" + strings.Join(n.elem, " ") + " separator " + n.sep + ")" + q
		case len(n.elem) > 1:
			s = "(" + strings.Join(n.elem, " ") + ")" + q
		default:
			s = n.elem[0] + q
		}
		if n.alias != "" {
			s += "[" + n.alias + "]"
		}
		return s
	case kSet:
		s := "set(" + strings.Join(n.set, " | ") + ")"
		if n.alias != "" {
			s += "[" + n.alias + "]"
		}
		return s
	case kLook:
		return "(?= Z)"
	case kAct:
		return n.code()
	}
	panic("kind")
}

func seqText(seq []*node) string {
	if len(seq) == 0 {
		return "%empty"
	}
	var parts []string
	for _, n := range seq {
		parts = append(parts, n.text())
	}
	return strings.Join(parts, " ")
}

func (n *node) code() string {
	var sb strings.Builder
	sb.WriteString(`{ "scratch/rt".Record("` + n.tag)
	for range n.refs {
		sb.WriteString(" %T:%v")
	}
	sb.WriteString(`"`)
	for _, r := range n.refs {
		sb.WriteString(", " + r.Text + ", " + r.Text)
	}
	sb.WriteString(")")
	if n.end {
		fmt.Fprintf(&sb, "; $$ = %d", n.lhs)
	}
	sb.WriteString(" }")
	return sb.String()
}

// ---- analysis: positions, name scopes, references of every action

type scope struct {
	names map[string][]int
	top   *scope // nil for the top-level scope itself
}

func (s *scope) push(name string, pos ...int) {
	top := s
	if s.top != nil {
		top = s.top
	}
	// a second occurrence of a name: name -> name#0, the new one becomes name#1 (and so on)
	idx := 0
	if _, ok := top.names[name+"#0"]; ok {
		for {
			idx++
			if _, ok := top.names[fmt.Sprintf("%s#%d", name, idx)]; !ok {
				break
			}
		}
	} else if v, ok := top.names[name]; ok {
		top.names[name+"#0"] = v
		delete(top.names, name)
		if s != top {
			s.names[name+"#0"] = v
			delete(s.names, name)
		}
		idx = 1
	}
	if idx > 0 {
		name = fmt.Sprintf("%s#%d", name, idx)
	}
	top.names[name] = pos
	if s != top {
		s.names[name] = pos
	}
}

func (r *rule) analyse() {
	r.posOf = map[int]*node{}
	next := 1
	top := &scope{names: map[string][]int{}}
	var acts []*node
	snap := map[*node]map[string][]int{}
	maxPos := map[*node]int{}
	var collect func(n *node) []int
	collect = func(n *node) []int {
		switch n.k {
		case kSym, kList, kSet:
			return []int{n.pos}
		}
		var out []int
		for _, a := range n.alts {
			for _, c := range a {
				out = append(out, collect(c)...)
			}
		}
		return out
	}
	var walk func(seq []*node, sc *scope)
	child := func(sc *scope) *scope {
		t := sc
		if sc.top != nil {
			t = sc.top
		}
		return &scope{names: map[string][]int{}, top: t}
	}
	merge := func(from, into *scope) {
		if into.top == nil {
			return // the top-level scope already has every name
		}
		for k, v := range from.names {
			into.names[k] = v
		}
	}
	walk = func(seq []*node, sc *scope) {
		for _, n := range seq {
			switch n.k {
			case kSym:
				n.pos = next
				next++
				r.posOf[n.pos] = n
				sc.push(n.sym, n.pos)
				if n.alias != "" {
					sc.push(n.alias, n.pos)
				}
			case kList, kSet:
				n.pos = next
				next++
				r.posOf[n.pos] = n
				if n.alias != "" {
					sc.push(n.alias, n.pos)
				}
			case kOpt:
				if n.paren {
					c := child(sc)
					walk(n.alts[0], c)
					merge(c, sc)
				} else {
					walk(n.alts[0], sc)
				}
			case kGroup, kChoice:
				for _, a := range n.alts {
					c := child(sc)
					walk(a, c)
					merge(c, sc)
				}
				if n.alias != "" {
					if p := collect(n); len(p) > 0 {
						sc.push(n.alias, p...)
					}
				}
			case kAct:
				m := map[string][]int{}
				for k, v := range sc.names {
					m[k] = append([]int{}, v...)
				}
				snap[n] = m
				maxPos[n] = next
				acts = append(acts, n)
			}
		}
	}
	walk(r.body, top)
	r.npos = next - 1
	for i, n := range r.body {
		if n.k == kAct {
			n.mid = i != len(r.body)-1
		}
	}
	var markNested func(seq []*node, nested bool)
	markNested = func(seq []*node, nested bool) {
		for _, n := range seq {
			if n.k == kAct && nested {
				n.mid = true
			}
			for _, a := range n.alts {
				markNested(a, true)
			}
		}
	}
	markNested(r.body, false)
	r.exps = expandSeq(r.body)
	// how many positions of a name can be present at once (over all expansions)
	maxActive := func(posns []int) int {
		m := 0
		for _, e := range r.exps {
			present := map[int]bool{}
			for _, en := range e {
				if en.pos > 0 {
					present[en.pos] = true
				}
			}
			k := 0
			for _, p := range posns {
				if present[p] {
					k++
				}
			}
			m = max(m, k)
		}
		return m
	}
	for _, a := range acts {
		if a.mid {
			r.hasMid = true
		}
		var refs []ref
		names := make([]string, 0, len(snap[a]))
		for k := range snap[a] {
			names = append(names, k)
		}
		sort.Slice(names, func(i, j int) bool {
			pi, pj := snap[a][names[i]], snap[a][names[j]]
			if pi[0] != pj[0] && !r.byName {
				return pi[0] < pj[0]
			}
			return names[i] < names[j]
		})
		for _, name := range names {
			posns := snap[a][name]
			cls := "name"
			for _, p := range posns {
				if n := r.posOf[p]; n.k != kSym || n.sym != name {
					cls = "alias"
				}
			}
			if strings.Contains(name, "#") {
				cls = "name"
			}
			valued := true
			for _, p := range posns {
				if r.posOf[p].k != kSym {
					valued = false // the value of a list / set is not specified anywhere
				}
			}
			if valued && maxActive(posns) <= 1 {
				t := "$" + name
				if strings.Contains(name, "#") {
					t = "${" + name + "}"
				}
				refs = append(refs, ref{Text: t, Class: cls + ".value", sel: 0, prop: 0, posns: posns})
			}
			refs = append(refs, ref{Text: "${" + name + ".offset}", Class: cls + ".offset", sel: 0, prop: 1, posns: posns})
			refs = append(refs, ref{Text: "${" + name + ".endoffset}", Class: cls + ".endoffset", sel: 0, prop: 2, posns: posns})
		}
		for p := 1; p < maxPos[a]; p++ {
			if r.posOf[p].k == kSym {
				refs = append(refs, ref{Text: fmt.Sprintf("$%d", p-1), Class: "index.value", sel: 1, prop: 0, posns: []int{p}})
			}
			refs = append(refs, ref{Text: fmt.Sprintf("${self[%d].offset}", p-1), Class: "index.offset", sel: 1, prop: 1, posns: []int{p}})
			refs = append(refs, ref{Text: fmt.Sprintf("${self[%d].endoffset}", p-1), Class: "index.endoffset", sel: 1, prop: 2, posns: []int{p}})
		}
		// first()/last(): where do they land?
		hFirst, hLast := false, false
		for _, e := range r.exps {
			for i, en := range e {
				if en.k == kAct && en.act == a && i > 0 {
					hFirst = hFirst || e[0].pos == 0
					hLast = hLast || e[i-1].pos == 0
				}
			}
		}
		if r.noFL {
			r.markUntyped(refs)
			a.refs = refs
			continue
		}
		if !hFirst || r.forceFL {
			r.flHelper = r.flHelper || hFirst
			refs = append(refs,
				ref{Text: "${first().offset}", Class: "first.offset", sel: 2, prop: 1},
				ref{Text: "${first().endoffset}", Class: "first.endoffset", sel: 2, prop: 2})
		}
		if !hLast || r.forceFL {
			r.flHelper = r.flHelper || hLast
			refs = append(refs,
				ref{Text: "${last().offset}", Class: "last.offset", sel: 3, prop: 1},
				ref{Text: "${last().endoffset}", Class: "last.endoffset", sel: 3, prop: 2})
		}
		r.markUntyped(refs)
		a.refs = refs
	}
}

func (r *rule) markUntyped(refs []ref) {
	for i := range refs {
		if refs[i].prop == 0 && len(refs[i].posns) > 0 {
			refs[i].untyped = true
			for _, p := range refs[i].posns {
				if n := r.posOf[p]; n.k != kSym || n.sym != "tu" {
					refs[i].untyped = false
				}
			}
		}
	}
}

// ---- expansions

type entry struct {
	k     kind   // kSym, kList, kSet, kLook, kAct
	pos   int    // 0 for kLook / kAct
	toks  string // token letters (P = "pq")
	act   *node
	empty bool // star list with zero elements
	// layout (filled by place)
	start, end int
}

func symToks(s string) string {
	if s == "P" {
		return "pq"
	}
	return s[1:]
}

func expandSeq(seq []*node) [][]entry {
	out := [][]entry{nil}
	for _, n := range seq {
		alts := expandNode(n)
		var nx [][]entry
		for _, a := range out {
			for _, b := range alts {
				e := make([]entry, 0, len(a)+len(b))
				e = append(append(e, a...), b...)
				nx = append(nx, e)
			}
		}
		out = nx
	}
	return out
}

func expandNode(n *node) [][]entry {
	switch n.k {
	case kSym:
		return [][]entry{{{k: kSym, pos: n.pos, toks: symToks(n.sym)}}}
	case kOpt:
		return append(expandSeq(n.alts[0]), nil)
	case kGroup, kChoice:
		var out [][]entry
		for _, a := range n.alts {
			out = append(out, expandSeq(a)...)
		}
		return out
	case kList:
		var one string
		for _, e := range n.elem {
			one += symToks(e)
		}
		sep := ""
		if n.sep != "" {
			sep = symToks(n.sep)
		}
		out := [][]entry{{{k: kList, pos: n.pos, toks: one}}, {{k: kList, pos: n.pos, toks: one + sep + one}}}
		if n.star {
			out = append([][]entry{{{k: kList, pos: n.pos, empty: true}}}, out...)
		}
		return out
	case kSet:
		var out [][]entry
		for _, m := range n.set {
			out = append(out, []entry{{k: kSet, pos: n.pos, toks: symToks(m)}})
		}
		return out
	case kLook:
		return [][]entry{{{k: kLook}}}
	case kAct:
		return [][]entry{{{k: kAct, act: n}}}
	}
	panic("kind")
}

func tokens(e []entry) string {
	var sb strings.Builder
	for _, en := range e {
		sb.WriteString(en.toks)
	}
	return sb.String()
}

// adjacentActions: some expansion has two actions with nothing between them.
func adjacentActions(exps [][]entry) bool {
	for _, e := range exps {
		for i := 1; i < len(e); i++ {
			if e[i].k == kAct && e[i-1].k == kAct {
				return true
			}
		}
	}
	return false
}

// spacing patterns: number of blanks before the k-th token (and one trailing blank)
var spacings = [][]int{{1, 2, 0, 1, 3, 0, 2, 1}, {0, 1, 3, 0, 2, 1, 0, 2}}

// place lays the tokens of prefix+expansion out with the given spacing; returns the text and the
// entries with start/end filled. prefix tokens (the rule discriminator) come first.
func place(prefix string, e []entry, sp []int) (string, []entry, int, int) {
	var sb strings.Builder
	k := 0
	put := func(c byte) (int, int) {
		for i := 0; i < sp[k%len(sp)]; i++ {
			sb.WriteByte(' ')
		}
		k++
		s := sb.Len()
		sb.WriteByte(c)
		return s, s + 1
	}
	for i := 0; i < len(prefix); i++ {
		put(prefix[i])
	}
	out := make([]entry, len(e))
	rs, re := -1, -1
	for i, en := range e {
		out[i] = en
		out[i].start, out[i].end = -1, -1
		for j := 0; j < len(en.toks); j++ {
			s, t := put(en.toks[j])
			if j == 0 {
				out[i].start = s
			}
			out[i].end = t
			if rs < 0 {
				rs = s
			}
			re = t
		}
	}
	sb.WriteByte(' ')
	// An empty list is reduced from nothing: the generated parser places it at the next token
	// (go_parser.go.tmpl: entry.sym.offset, entry.sym.endoffset = p.next.offset, p.next.offset),
	// i.e. at the start of the following token or, without one, at the end-of-input token, which
	// follows the trailing blank.
	next := sb.Len()
	for i := len(out) - 1; i >= 0; i-- {
		if out[i].empty {
			out[i].start, out[i].end = next, next
		} else if out[i].start >= 0 {
			next = out[i].start
		}
	}
	return sb.String(), out, rs, re
}

const wild = "*"

// termType: terminals alternate between {int} (value 100+start offset) and {string} (value
// "s<start offset>"), so that neighbouring symbols -- in particular the alternatives of a choice
// that share an alias -- have different types; P is {float64}.
func termType(t string) string {
	if t == "tp" {
		return "int" // P computes its value from it
	}
	if t == "tu" {
		return "" // the untyped terminal: no type, no lexer action, hence no value
	}
	if (t[1]-'a')%2 == 1 {
		return "string"
	}
	return "int"
}

// symValue is what a value reference to a present symbol must print with %T:%v: terminals carry a
// function of their start offset (set by the lexer action), P carries 200.5 + the value of its
// first token.
func symValue(n *node, start int) string {
	if n.sym == "P" {
		return fmt.Sprintf("float64:%d.5", 300+start)
	}
	if termType(n.sym) == "" {
		return "<nil>:<nil>" // an untyped terminal has no value
	}
	if termType(n.sym) == "string" {
		return fmt.Sprintf("string:s%d", start)
	}
	return fmt.Sprintf("int:%d", 100+start)
}

// expect computes the record an action must produce in a placed expansion; idx is the index of
// the action's entry. Also returns per-field presence ("present"/"absent"/"" for wildcards).
func (r *rule) expect(e []entry, idx int) ([]string, []string) {
	a := e[idx].act
	byPos := map[int]*entry{}
	for i := range e {
		if e[i].pos > 0 {
			byPos[e[i].pos] = &e[i]
		}
	}
	var vals, pres []string
	emit := func(v, p string) { vals = append(vals, v); pres = append(pres, p) }
	absent := func(prop int) {
		if prop == 0 {
			emit("<nil>:<nil>", "absent")
		} else {
			emit("int:-1", "absent")
		}
	}
	for _, rf := range a.refs {
		switch rf.sel {
		case 0, 1:
			var active []*entry
			for _, p := range rf.posns {
				if en := byPos[p]; en != nil {
					active = append(active, en)
				}
			}
			if len(active) == 0 {
				absent(rf.prop)
				continue
			}
			switch rf.prop {
			case 0:
				emit(symValue(r.posOf[active[0].pos], active[0].start), "present")
			case 1:
				emit(fmt.Sprintf("int:%d", active[0].start), "present")
			case 2:
				emit(fmt.Sprintf("int:%d", active[len(active)-1].end), "present")
			}
		case 2, 3:
			if idx == 0 {
				absent(rf.prop)
				continue
			}
			en := &e[0]
			if rf.sel == 3 {
				en = &e[idx-1]
			}
			// first()/last() landing on a helper symbol (extracted action, lookahead) is not
			// specified: left out
			if en.pos == 0 {
				emit(wild, "")
			} else if rf.prop == 1 {
				emit(fmt.Sprintf("int:%d", en.start), "present")
			} else {
				emit(fmt.Sprintf("int:%d", en.end), "present")
			}
		}
	}
	return vals, pres
}

// ---- catalogue of items and body construction

type alloc struct {
	syms    int
	aliases int
	first   string
}

func (a *alloc) sym() string {
	s := "t" + string(rune('a'+a.syms))
	a.syms++
	if a.first == "" {
		a.first = s
	}
	return s
}

func (a *alloc) alias() string {
	s := []string{"x", "y", "w", "v", "u", "r"}[a.aliases]
	a.aliases++
	return s
}

func S(s string) *node { return &node{k: kSym, sym: s} }

type itemDef struct {
	name  string
	build func(a *alloc) *node // nil result = not applicable here
}

var catalogue = []itemDef{
	{"s", func(a *alloc) *node { return S(a.sym()) }},
	{"s?", func(a *alloc) *node { return &node{k: kOpt, alts: [][]*node{{S(a.sym())}}} }},
	{"(s|s)[x]", func(a *alloc) *node {
		return &node{k: kChoice, alts: [][]*node{{S(a.sym())}, {S(a.sym())}}, alias: a.alias()}
	}},
	{"(?=Z)", func(a *alloc) *node { return &node{k: kLook} }},
	{"s+[x]", func(a *alloc) *node { return &node{k: kList, elem: []string{a.sym()}, alias: a.alias()} }},
	{"(s s?)[x]", func(a *alloc) *node {
		return &node{k: kGroup, alts: [][]*node{{S(a.sym()), {k: kOpt, alts: [][]*node{{S(a.sym())}}}}}, alias: a.alias()}
	}},
	{"(s s)?", func(a *alloc) *node {
		return &node{k: kOpt, paren: true, alts: [][]*node{{S(a.sym()), S(a.sym())}}}
	}},
	{"P", func(a *alloc) *node { return S("P") }},
	// ---- the items above form the reduced catalogue (3-item bodies)
	{"s[x]", func(a *alloc) *node { n := S(a.sym()); n.alias = a.alias(); return n }},
	{"P?", func(a *alloc) *node { return &node{k: kOpt, alts: [][]*node{{S("P")}}} }},
	{"(s|s s)", func(a *alloc) *node {
		return &node{k: kChoice, alts: [][]*node{{S(a.sym())}, {S(a.sym()), S(a.sym())}}}
	}},
	{"(s s)[x]", func(a *alloc) *node {
		return &node{k: kGroup, alts: [][]*node{{S(a.sym()), S(a.sym())}}, alias: a.alias()}
	}},
	{"(s separator s)+", func(a *alloc) *node { e := a.sym(); return &node{k: kList, elem: []string{e}, sep: a.sym()} }},
	{"s*[x]", func(a *alloc) *node { return &node{k: kList, elem: []string{a.sym()}, star: true, alias: a.alias()} }},
	{"(s s)+", func(a *alloc) *node { return &node{k: kList, elem: []string{a.sym(), a.sym()}} }},
	{"set(s|s)[x]", func(a *alloc) *node { return &node{k: kSet, set: []string{a.sym(), a.sym()}, alias: a.alias()} }},
	{"(s (s|s)?)?", func(a *alloc) *node {
		first := S(a.sym())
		inner := &node{k: kOpt, paren: true, alts: [][]*node{{{k: kChoice, alts: [][]*node{{S(a.sym())}, {S(a.sym())}}}}}}
		return &node{k: kOpt, paren: true, alts: [][]*node{{first, inner}}}
	}},
	{"(s?|P)[x]", func(a *alloc) *node {
		return &node{k: kChoice, alts: [][]*node{{{k: kOpt, alts: [][]*node{{S(a.sym())}}}}, {S("P")}}, alias: a.alias()}
	}},
	{"(s separator s)*[x]", func(a *alloc) *node {
		e := a.sym()
		return &node{k: kList, elem: []string{e}, sep: a.sym(), star: true, alias: a.alias()}
	}},
	{"U", func(a *alloc) *node { return S("tu") }},
	{"(s|P)[x]", func(a *alloc) *node {
		return &node{k: kChoice, alts: [][]*node{{S(a.sym())}, {S("P")}}, alias: a.alias()}
	}},
	{"dup", func(a *alloc) *node {
		if a.first == "" {
			return nil
		}
		return S(a.first)
	}},
}

const reducedCatalogue = 8

// buildBody instantiates the items; nil if the combination is not applicable.
func buildBody(items []int) []*node {
	a := &alloc{}
	var body []*node
	nP := 0
	for i, it := range items {
		if catalogue[it].name == "dup" {
			// only directly meaningful when the first item is a plain (optional) symbol
			if i == 0 || (catalogue[items[0]].name != "s" && catalogue[items[0]].name != "s?") {
				return nil
			}
		}
		n := catalogue[it].build(a)
		if n == nil {
			return nil
		}
		body = append(body, n)
	}
	var count func(seq []*node)
	count = func(seq []*node) {
		for _, n := range seq {
			if n.k == kSym && (n.sym == "P" || n.sym == "tu") {
				nP++ // (P and tu together are fine, but rare enough to leave out)
			}
			for _, al := range n.alts {
				count(al)
			}
		}
	}
	count(body)
	if nP > 1 {
		return nil // P twice would need the name#k convention inside nested scopes: not modelled
	}
	return body
}

func nullable(n *node) bool {
	switch n.k {
	case kSym, kSet:
		return false
	case kList:
		return n.star
	case kOpt, kLook, kAct:
		return true
	case kGroup, kChoice:
		for _, a := range n.alts {
			all := true
			for _, c := range a {
				if !nullable(c) {
					all = false
				}
			}
			if all {
				return true
			}
		}
		return false
	}
	return true
}

func nullableSeq(seq []*node) bool {
	for _, n := range seq {
		if !nullable(n) {
			return false
		}
	}
	return true
}

// lookaheadsOK: every top-level lookahead is followed (skipping actions and lookaheads) by a
// non-nullable item, so that the predicate Z (any single token) holds in every sentence.
func lookaheadsOK(body []*node) bool {
	for i, n := range body {
		if n.k != kLook {
			continue
		}
		j := i + 1
		for j < len(body) && (body[j].k == kAct || body[j].k == kLook) {
			j++
		}
		if j >= len(body) || nullable(body[j]) {
			return false
		}
	}
	return true
}

// gap is an insertion point for an action.
type gap struct {
	seq *[]*node
	idx int
	top bool
}

func gaps(body *[]*node) []gap {
	var out []gap
	var walk func(seq *[]*node, top bool)
	walk = func(seq *[]*node, top bool) {
		for i := 0; i <= len(*seq); i++ {
			if top && i == len(*seq) {
				break // the end of the rule is the end action
			}
			out = append(out, gap{seq, i, top})
			if i < len(*seq) {
				n := (*seq)[i]
				if (n.k == kOpt && n.paren) || n.k == kGroup || n.k == kChoice {
					for ai := range n.alts {
						walk(&n.alts[ai], false)
					}
				}
			}
		}
	}
	walk(body, true)
	return out
}

// insertActions inserts mid actions at the selected gaps (indices into gaps(body)) and, when
// endAct, the end-of-rule action. Tags are numbered in source order.
func insertActions(body *[]*node, sel map[int]bool, endAct bool, lhs int) {
	gs := gaps(body)
	// insert from the last gap to the first so that indices stay valid
	type ins struct {
		g gap
		n *node
	}
	var list []ins
	for i, g := range gs {
		if sel[i] {
			list = append(list, ins{g, &node{k: kAct}})
		}
	}
	for i := len(list) - 1; i >= 0; i-- {
		g := list[i].g
		s := *g.seq
		s = append(s[:g.idx], append([]*node{list[i].n}, s[g.idx:]...)...)
		*g.seq = s
	}
	if endAct {
		*body = append(*body, &node{k: kAct, end: true, lhs: lhs})
	}
	// number in source order
	k := 0
	var walk func(seq []*node)
	walk = func(seq []*node) {
		for _, n := range seq {
			if n.k == kAct {
				if n.end {
					n.tag = "e"
				} else {
					n.tag = fmt.Sprintf("m%d", k)
					k++
				}
			}
			for _, a := range n.alts {
				walk(a)
			}
		}
	}
	walk(*body)
}
