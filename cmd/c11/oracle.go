package main

import (
	"errors"
	"fmt"
	"strconv"
	"strings"
	"unicode"

	"github.com/inspirer/textmapper/grammar"

	"verif/internal/rxref"
)

// The reference tokenizer. Written from the property statement:
//
//   - the active rules are those of the current start condition; the next token is the longest
//     non-empty prefix matched by one of them, by the rule of the highest priority among those
//     matching that prefix;
//   - a non-(class) rule whose pattern is a constant string that a (class) rule matches as a whole
//     is a specialisation (keyword) of that class rule: it does not take part in matching, and when
//     the class rule wins with exactly that text, the keyword rule (its token, (space) attribute
//     and action) replaces it;
//   - (space) tokens are skipped; a lexer action `l.State = X` selects the start condition of the
//     following tokens (also when the token is skipped);
//   - when nothing matches: end-of-input token (empty, at the end, again on every later call) if
//     no input is left; otherwise invalid_token over the longest prefix some active rule could
//     still extend, and over exactly one character (rune in rune mode, byte in byte mode) when
//     that prefix is empty;
//   - Pos = byte offsets; Line = 1 + number of '\n' before the first byte; Column = 1 + number of
//     bytes between the last '\n' before the first byte and that byte ("in bytes, 1-based" says
//     the generated doc comment).
type refLexer struct {
	g      *lexGrammar
	opts   rxref.Opts
	m      *rxref.Matcher
	start  []rxref.State
	inDFA  []bool           // rule takes part in matching (not a keyword)
	action []int            // action identity: equal for rules the compiler merges
	active [][]int          // [cond] -> rule indexes taking part
	kw     []map[string]int // [class rule] text -> keyword rule
	sym    []int            // [rule] -> token number
	names  []string         // token names by number
	hasBT  bool

	cur, nxt []rxref.State
}

var (
	errEoiFirst = errors.New("rule-matches-at-end-without-text")
	errEoiCycle = errors.New("eoi-under-unbounded-repetition")
	errNullable = errors.New("rule-matches-empty-text")
	errNoSpec   = errors.New("class-rule-without-specialisation")
	errClassSC  = errors.New("keyword-start-conditions-differ-from-class")
	errClassTie = errors.New("two-class-rules-match-the-same-keyword")
)

const eoiDepth = 6

func eoiUnderStar(n *rxref.Node, inStar bool, named map[string]*rxref.Node) bool {
	switch n.Kind {
	case rxref.KEOI:
		return inStar
	case rxref.KRef:
		return eoiUnderStar(named[n.Name], inStar, named)
	case rxref.KRep:
		return eoiUnderStar(n.Sub[0], inStar || n.Max == -1, named)
	}
	for _, s := range n.Sub {
		if eoiUnderStar(s, inStar, named) {
			return true
		}
	}
	return false
}

// constOf: the text of a pattern that is a plain string for the compiler (literal characters,
// escapes of single characters and their concatenations). Under case folding a character with
// case variants is a class, not a constant; in byte mode only ASCII letters have case.
func constOf(n *rxref.Node, o rxref.Opts) (string, bool) {
	switch n.Kind {
	case rxref.KLit:
		if n.Hex {
			return "", false // not generated
		}
		if o.Fold && unicode.SimpleFold(n.R) != n.R && (!o.Bytes || n.R < 0x80) {
			return "", false
		}
		return string(n.R), true
	case rxref.KCat:
		var b strings.Builder
		for _, s := range n.Sub {
			t, ok := constOf(s, o)
			if !ok {
				return "", false
			}
			b.WriteString(t)
		}
		return b.String(), true
	}
	return "", false
}

func newRefLexer(g *lexGrammar, mask int) (*refLexer, error) {
	named := rxref.NamedPatterns()
	rl := &refLexer{g: g, opts: rxref.Opts{Bytes: mask&optScanBytes != 0, Fold: mask&optCaseInsensitive != 0}}
	rl.m = rxref.NewMatcher(rl.opts, named)
	n := len(g.Rules)
	rl.start = make([]rxref.State, n)
	rl.inDFA = make([]bool, n)
	rl.action = make([]int, n)
	rl.kw = make([]map[string]int, n)
	rl.sym = make([]int, n)
	rl.names = []string{"eoi", "invalid_token"}
	symOf := map[string]int{"eoi": 0, "invalid_token": 1}
	actOf := map[string]int{}
	for i := range g.Rules {
		r := &g.Rules[i]
		if eoiUnderStar(r.AST, false, named) {
			return nil, errEoiCycle
		}
		s, err := rl.m.Compile(r.AST)
		if err != nil {
			return nil, err
		}
		rl.start[i] = s
		if rl.m.Nullable(s) {
			return nil, errNullable
		}
		if !rl.m.Dead(rl.m.Derive(s, rxref.EOISym)) {
			return nil, errEoiFirst
		}
		rl.inDFA[i] = true
		if _, ok := symOf[r.Name]; !ok {
			symOf[r.Name] = len(rl.names)
			rl.names = append(rl.names, r.Name)
		}
		rl.sym[i] = symOf[r.Name]
		// rules with the same token, attributes and action code share one action; class rules never do
		key := fmt.Sprintf("%s/%v/%d", r.Name, r.Space, r.Goto)
		if r.Class {
			key = fmt.Sprintf("class#%d", i)
		}
		if _, ok := actOf[key]; !ok {
			actOf[key] = len(actOf)
		}
		rl.action[i] = actOf[key]
	}
	// keyword specialisation
	var classRules []int
	maxClassSC := -1
	for i := range g.Rules {
		if g.Rules[i].Class {
			classRules = append(classRules, i)
			for _, c := range g.effSC(i) {
				maxClassSC = max(maxClassSC, c)
			}
		}
	}
	if len(classRules) > 0 {
		for i := range g.Rules {
			r := &g.Rules[i]
			if r.Class {
				continue
			}
			val, ok := constOf(r.AST, rl.opts)
			if !ok {
				continue
			}
			syms := rxref.Decode(val, rl.opts.Bytes)
			cr := -1
			for _, c := range g.effSC(i) {
				if c > maxClassSC {
					continue
				}
				var cand []int
				for _, ci := range classRules {
					if containsInt(g.effSC(ci), c) {
						cand = append(cand, ci)
					}
				}
				size, rule, tie, _ := rl.scan(cand, syms, 0)
				if tie {
					return nil, errClassTie
				}
				if rule >= 0 && size == len(val) {
					cr = rule
					break
				}
			}
			if cr < 0 {
				continue
			}
			if !equalInts(g.effSC(cr), g.effSC(i)) {
				return nil, errClassSC
			}
			if rl.kw[cr] == nil {
				rl.kw[cr] = map[string]int{}
			}
			rl.kw[cr][val] = i
			rl.inDFA[i] = false
		}
		for _, ci := range classRules {
			if len(rl.kw[ci]) == 0 {
				return nil, errNoSpec
			}
		}
	}
	rl.active = make([][]int, len(g.Conds))
	for i := range g.Rules {
		if !rl.inDFA[i] {
			continue
		}
		for _, c := range g.effSC(i) {
			rl.active[c] = append(rl.active[c], i)
		}
	}
	return rl, nil
}

func containsInt(l []int, v int) bool {
	for _, x := range l {
		if x == v {
			return true
		}
	}
	return false
}

func equalInts(a, b []int) bool {
	if len(a) != len(b) {
		return false
	}
	for i := range a {
		if a[i] != b[i] {
			return false
		}
	}
	return true
}

// winner: the accepting candidate of the highest priority (-1 if none) and whether another
// accepting candidate with a different action shares that priority.
func (rl *refLexer) winner(cand []int, st []rxref.State) (best int, tie bool) {
	best = -1
	for j, ri := range cand {
		if !rl.m.Nullable(st[j]) {
			continue
		}
		switch {
		case best == -1 || rl.g.Rules[ri].Prio > rl.g.Rules[best].Prio:
			best, tie = ri, false
		case rl.g.Rules[ri].Prio == rl.g.Rules[best].Prio && rl.action[ri] != rl.action[best]:
			tie = true
		}
	}
	return
}

// scan finds the first token of syms[from:] among the candidate rules: (size in bytes, rule) or
// rule = -1 and size = the longest prefix that could still be extended. longer reports that a
// prefix longer than the match was still alive (the generated lexer needs its backtracking
// tables there).
func (rl *refLexer) scan(cand []int, syms []rxref.Sym, from int) (size, rule int, tie, longer bool) {
	if cap(rl.cur) < len(cand) {
		rl.cur = make([]rxref.State, len(cand)+4)
		rl.nxt = make([]rxref.State, len(cand)+4)
	}
	cur, nxt := rl.cur[:len(cand)], rl.nxt[:len(cand)]
	for j, ri := range cand {
		cur[j] = rl.start[ri]
	}
	rule = -1
	pos := 0
	step := func(sym int32) bool {
		alive := false
		for j := range cur {
			nxt[j] = rl.m.Derive(cur[j], sym)
			if !rl.m.Dead(nxt[j]) {
				alive = true
			}
		}
		cur, nxt = nxt, cur
		return alive
	}
	finish := func(alive int) (int, int, bool, bool) {
		if rule >= 0 {
			return size, rule, tie, size < alive
		}
		return alive, -1, false, false
	}
	for _, s := range syms[from:] {
		if !step(s.Val) {
			return finish(pos)
		}
		pos += s.Width
		if w, t := rl.winner(cand, cur); w >= 0 {
			size, rule, tie = pos, w, t
		}
	}
	for k := 0; k <= eoiDepth; k++ {
		if !step(rxref.EOISym) {
			break
		}
		if w, t := rl.winner(cand, cur); w >= 0 {
			size, rule, tie = pos, w, t
		}
	}
	return finish(pos)
}

type rtok struct{ sym, off, end int }

const (
	fMatch = 1 << iota
	fKeyword
	fSpaceSkipped
	fInvalidOneChar
	fInvalidPrefix
	fBacktracked
	fStateSwitch
	fMultiLine
	fTrailingSpace
	fKeywordNonASCII
	fOutOfDomain
	fTie
)

var flagNames = []string{"stream:match", "stream:keyword", "stream:space-skipped", "stream:invalid-one-character", "stream:invalid-prefix",
	"stream:backtracked", "stream:state-switch", "stream:multi-line", "stream:space-before-eoi", "stream:keyword-non-ascii"}

// tokenize returns the expected tokens (the last one is the end-of-input token).
func (rl *refLexer) tokenize(text string, syms []rxref.Sym) (toks []rtok, flags int) {
	cond, i, pos := 0, 0, 0
	if strings.IndexByte(text, '\n') >= 0 {
		flags |= fMultiLine
	}
	lastSpace := false
	for {
		size, rule, tie, longer := rl.scan(rl.active[cond], syms, i)
		if tie {
			return nil, flags | fTie
		}
		if rule < 0 {
			if size == 0 {
				if i == len(syms) {
					if lastSpace {
						flags |= fTrailingSpace
					}
					toks = append(toks, rtok{0, pos, pos})
					return toks, flags
				}
				size = syms[i].Width
				flags |= fInvalidOneChar
			} else {
				flags |= fInvalidPrefix
			}
			toks = append(toks, rtok{1, pos, pos + size})
			lastSpace = false
		} else {
			if size == 0 {
				return nil, flags | fOutOfDomain
			}
			if longer {
				flags |= fBacktracked
			}
			r := rule
			if k, ok := rl.kw[rule][text[pos:pos+size]]; ok {
				r = k
				flags |= fKeyword
				for _, b := range []byte(text[pos : pos+size]) {
					if b >= 0x80 {
						flags |= fKeywordNonASCII
					}
				}
			}
			R := &rl.g.Rules[r]
			if R.Goto >= 0 {
				if R.Goto != cond {
					flags |= fStateSwitch
				}
				cond = R.Goto
			}
			if R.Space {
				flags |= fSpaceSkipped
				lastSpace = true
			} else {
				flags |= fMatch
				toks = append(toks, rtok{rl.sym[r], pos, pos + size})
				lastSpace = false
			}
		}
		pos += size
		for n := size; n > 0; i++ {
			n -= syms[i].Width
		}
	}
}

// format prints the expected stream the way the driver prints the observed one.
func (rl *refLexer) format(b []byte, text string, toks []rtok, mask int) []byte {
	line, lineStart, at := 1, 0, 0
	one := func(t rtok) {
		for ; at < t.off; at++ {
			if text[at] == '\n' {
				line++
				lineStart = at + 1
			}
		}
		b = strconv.AppendInt(b, int64(t.sym), 10)
		b = append(b, ':')
		b = strconv.AppendInt(b, int64(t.off), 10)
		b = append(b, ':')
		b = strconv.AppendInt(b, int64(t.end), 10)
		b = append(b, ':')
		if mask&optTokenLine != 0 {
			b = strconv.AppendInt(b, int64(line), 10)
		} else {
			b = append(b, '0')
		}
		b = append(b, ':')
		if mask&optTokenColumn != 0 {
			b = strconv.AppendInt(b, int64(t.off-lineStart+1), 10)
		} else {
			b = append(b, '0')
		}
		b = append(b, ' ')
	}
	for _, t := range toks {
		one(t)
	}
	last := toks[len(toks)-1]
	one(last)
	one(last)
	return b
}

type otok struct{ sym, off, end, line, col int }

func parseStream(s string) ([]otok, bool) {
	var out []otok
	for _, f := range strings.Fields(s) {
		p := strings.Split(f, ":")
		if len(p) != 5 {
			return out, false
		}
		var v [5]int
		for i := range p {
			x, err := strconv.Atoi(p[i])
			if err != nil {
				return out, false
			}
			v[i] = x
		}
		out = append(out, otok{v[0], v[1], v[2], v[3], v[4]})
	}
	return out, true
}

// classify names the first difference between the expected and the observed stream.
func (rl *refLexer) classify(text string, toks []rtok, want, got string, mask, flags int) (key, what string) {
	mode := "runes"
	if mask&optScanBytes != 0 {
		mode = "bytes"
	}
	desc := fmt.Sprintf("expected %q, generated lexer returned %q (sym:start:end:line:column; tokens %s)", strings.TrimSpace(want), strings.TrimSpace(got), strings.Join(rl.names, ","))
	if strings.HasPrefix(got, "PANIC") {
		return "lexer:panic", desc
	}
	g, ok := parseStream(got)
	if strings.HasSuffix(got, "LOOP") {
		g, _ = parseStream(strings.TrimSuffix(got, "LOOP"))
		// no progress or no end-of-input
		for i := 1; i < len(g); i++ {
			if g[i].end <= g[i-1].end && g[i].sym != 0 && g[i-1].sym != 0 {
				return "progress:token-does-not-advance", desc
			}
		}
		return "progress:no-end-of-input-within-budget", desc
	}
	if !ok {
		return "harness:unparsable-stream", desc
	}
	w, _ := parseStream(want)
	isSpaceSym := map[int]bool{}
	isKw := map[int]bool{}
	for i, r := range rl.g.Rules {
		if r.Space {
			isSpaceSym[rl.sym[i]] = true
		}
		if !rl.inDFA[i] {
			isKw[rl.sym[i]] = true
		}
	}
	firstEOI := len(toks) - 1
	for i := 0; i < len(w) && i < len(g); i++ {
		a, b := w[i], g[i]
		if a.sym == b.sym && a.off == b.off && a.end == b.end {
			continue
		}
		switch {
		case i > firstEOI:
			return "eoi:not-repeated", desc
		case b.off < a.off && i > 0 && b.off < g[i-1].end:
			return "tiling:tokens-overlap", desc
		case b.off != a.off:
			if isSpaceSym[b.sym] {
				return "space:token-not-skipped", desc
			}
			return "tiling:wrong-start-offset:" + mode, desc
		case b.end == b.off && b.sym != 0:
			return "progress:empty-token", desc
		case a.sym == 0 && b.sym != 0:
			if isSpaceSym[b.sym] {
				return "space:token-not-skipped", desc
			}
			return "eoi:missing", desc
		case b.sym == 0 && a.sym != 0:
			return "eoi:premature", desc
		case a.end != b.end:
			if a.sym == 1 || b.sym == 1 {
				return "invalid-token:span:" + mode, desc
			}
			if isSpaceSym[b.sym] {
				return "space:token-not-skipped", desc
			}
			if b.end > a.end {
				return "match:too-long:" + mode, desc
			}
			return "match:too-short:" + mode, desc
		case isKw[a.sym] && !isKw[b.sym]:
			if flags&fKeywordNonASCII != 0 && mode == "bytes" {
				return "keyword-missed:byte-mode-non-ascii", desc
			}
			return "keyword-missed", desc
		case isKw[b.sym] && !isKw[a.sym]:
			return "keyword-spurious", desc
		case isSpaceSym[b.sym]:
			return "space:token-not-skipped", desc
		case a.sym == 1 || b.sym == 1:
			return "invalid-token:symbol", desc
		default:
			return "match:wrong-token:" + mode, desc
		}
	}
	if len(g) != len(w) {
		if len(g) < len(w) {
			return "eoi:not-repeated", desc
		}
		return "stream:extra-tokens", desc
	}
	for i := range w {
		if w[i].line != g[i].line {
			return "line-number", desc
		}
	}
	// only columns differ
	if mask&optTokenLine == 0 {
		return "column-without-tokenLine", desc
	}
	offByOne := true
	for i := range w {
		d := 0
		if w[i].line > 1 {
			d = 1
		}
		if g[i].col != w[i].col+d {
			offByOne = false
		}
	}
	if offByOne {
		return "column-after-newline", desc
	}
	return "column:other", desc
}

// checkSymbols cross-checks the token numbering with the compiled grammar (names only).
func (rl *refLexer) checkSymbols(cg *grammar.Grammar) string {
	if cg == nil {
		return ""
	}
	if cg.NumTokens != len(rl.names) {
		return fmt.Sprintf("compiled grammar has %d tokens, the model %d (%v)", cg.NumTokens, len(rl.names), rl.names)
	}
	for i, n := range rl.names {
		if cg.Syms[i].Name != n {
			return fmt.Sprintf("token %d is %q in the compiled grammar, %q in the model", i, cg.Syms[i].Name, n)
		}
	}
	return ""
}

// plausible is the domain pre-filter used while sampling the enumeration (yield only: whatever the
// compiler still rejects is counted as rejected): the grammar is inside the modelled domain in
// rune mode without folding and no two candidates of the top priority accept the same text.
func (g *lexGrammar) plausible() bool { return g.plausibleUnder(0) }

func (g *lexGrammar) plausibleUnder(mask int) bool {
	rl, err := newRefLexer(g, mask)
	if err != nil {
		return false
	}
	for i := range g.Rules {
		if len(g.effSC(i)) == 0 {
			return false
		}
	}
	// representative symbols: interval boundaries of all leaves
	seen := map[int32]bool{0: true}
	reps := []int32{rxref.EOISym, 0}
	for i := range g.Rules {
		sets, _ := rl.m.LeafSets(g.Rules[i].AST)
		for _, s := range sets {
			for k := 0; k < len(s); k += 2 {
				for _, p := range []int32{s[k], s[k+1] + 1} {
					if p >= 0 && p <= unicode.MaxRune && !seen[p] {
						seen[p] = true
						reps = append(reps, p)
					}
				}
			}
		}
	}
	for c := range g.Conds {
		cand := rl.active[c]
		if len(cand) == 0 {
			continue
		}
		key := func(st []rxref.State) string {
			var b []byte
			for _, s := range st {
				b = strconv.AppendInt(b, int64(s), 32)
				b = append(b, ',')
			}
			return string(b)
		}
		first := make([]rxref.State, len(cand))
		for j, ri := range cand {
			first[j] = rl.start[ri]
		}
		queue := [][]rxref.State{first}
		visited := map[string]bool{key(first): true}
		for len(queue) > 0 && len(visited) < 4000 {
			st := queue[0]
			queue = queue[1:]
			if _, tie := rl.winner(cand, st); tie {
				return false
			}
			for _, sym := range reps {
				nx := make([]rxref.State, len(st))
				alive := false
				for j := range st {
					nx[j] = rl.m.Derive(st[j], sym)
					alive = alive || !rl.m.Dead(nx[j])
				}
				if k := key(nx); alive && !visited[k] {
					visited[k] = true
					queue = append(queue, nx)
				}
			}
		}
	}
	return true
}
