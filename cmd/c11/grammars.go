package main

import (
	"fmt"
	"sort"
	"strings"
	"unicode"

	"verif/internal/rxref"
)

// ---------------------------------------------------------------------------------------------
// options

const (
	optTokenLine = 1 << iota
	optTokenColumn
	optScanBytes
	optNonBacktracking
	optCaseInsensitive
)

var optNames = []string{"tokenLine", "tokenColumn", "scanBytes", "nonBacktracking", "caseInsensitive"}

func optString(mask int) string {
	var on []string
	for i, n := range optNames {
		if mask&(1<<uint(i)) != 0 {
			on = append(on, n)
		}
	}
	if len(on) == 0 {
		return "none"
	}
	return strings.Join(on, ",")
}

// ---------------------------------------------------------------------------------------------
// model of a lexer-only grammar

type cond struct {
	Name string
	Excl bool
}

type rule struct {
	Name  string      // token name
	AST   *rxref.Node // meaning of the pattern
	Text  string      // printed pattern when it is not AST.String() (\p{L} …)
	Prio  int
	Class bool
	Space bool
	SC    []int // nil = the inclusive start conditions
	Goto  int   // -1 = no action; otherwise the action is { l.State = State<Goto> }
}

type extraInputs struct {
	Letters []string
	MaxLen  int
}

type lexGrammar struct {
	// On / Off: option bits this grammar should (not) have in the quick tier's single subset (the
	// interesting interaction, or the subsets under which the compiler accepts it); see buildGrammars
	On, Off int
	Family  string
	Conds   []cond // Conds[0] is "initial"
	Rules   []rule
	Extra   *extraInputs
	Tags    []string
}

func (r *rule) pattern() string {
	if r.Text != "" {
		return r.Text
	}
	return r.AST.String()
}

func (g *lexGrammar) nodes() int {
	n := 0
	for _, r := range g.Rules {
		n += r.AST.Size()
	}
	return n
}

func title(s string) string { return strings.ToUpper(s[:1]) + s[1:] }

func (g *lexGrammar) scNames(sc []int) string {
	var n []string
	for _, i := range sc {
		n = append(n, g.Conds[i].Name)
	}
	return "<" + strings.Join(n, ", ") + ">"
}

func (g *lexGrammar) ruleText(r *rule) string {
	var b strings.Builder
	if r.SC != nil {
		b.WriteString(g.scNames(r.SC) + " ")
	}
	fmt.Fprintf(&b, "%s: /%s/", r.Name, r.pattern())
	if r.Prio != 0 {
		fmt.Fprintf(&b, " %d", r.Prio)
	}
	if r.Class {
		b.WriteString(" (class)")
	}
	if r.Space {
		b.WriteString(" (space)")
	}
	if r.Goto >= 0 {
		fmt.Fprintf(&b, " { l.State = State%s }", title(g.Conds[r.Goto].Name))
	}
	return b.String()
}

func (g *lexGrammar) summary() string {
	var parts []string
	for i := 1; i < len(g.Conds); i++ {
		k := "%s"
		if g.Conds[i].Excl {
			k = "%x"
		}
		parts = append(parts, k+" "+g.Conds[i].Name)
	}
	for i := range g.Rules {
		parts = append(parts, g.ruleText(&g.Rules[i]))
	}
	return "[" + g.Family + "] " + strings.Join(parts, " ; ")
}

// usedNamed returns the named patterns referenced by the rules (closure), in NamedOrder.
func (g *lexGrammar) usedNamed() []string {
	named := rxref.NamedPatterns()
	used := map[string]bool{}
	var visit func(n *rxref.Node)
	visit = func(n *rxref.Node) {
		if n.Kind == rxref.KRef && !used[n.Name] {
			used[n.Name] = true
			visit(named[n.Name])
		}
		for _, s := range n.Sub {
			visit(s)
		}
	}
	for _, r := range g.Rules {
		visit(r.AST)
	}
	var out []string
	for _, n := range rxref.NamedOrder {
		if used[n] {
			out = append(out, n)
		}
	}
	return out
}

// toTM prints the grammar for the Go target under an option subset.
func (g *lexGrammar) toTM(name string, mask int) string {
	var b strings.Builder
	fmt.Fprintf(&b, "language %s(go);\n\npackage = \"scratch/%s\"\ngenParser = false\n", name, name)
	for i, n := range optNames {
		fmt.Fprintf(&b, "%s = %v\n", n, mask&(1<<uint(i)) != 0)
	}
	b.WriteString("\n:: lexer\n\n")
	for i := 1; i < len(g.Conds); i++ {
		if g.Conds[i].Excl {
			fmt.Fprintf(&b, "%%x %s;\n", g.Conds[i].Name)
		} else {
			fmt.Fprintf(&b, "%%s %s;\n", g.Conds[i].Name)
		}
	}
	named := rxref.NamedPatterns()
	for _, n := range g.usedNamed() {
		fmt.Fprintf(&b, "%s = /%s/\n", n, named[n].String())
	}
	for i := range g.Rules {
		b.WriteString(g.ruleText(&g.Rules[i]) + "\n")
	}
	return b.String()
}

// effSC returns the start conditions of rule i.
func (g *lexGrammar) effSC(i int) []int {
	if g.Rules[i].SC != nil {
		return g.Rules[i].SC
	}
	var out []int
	for c, cd := range g.Conds {
		if !cd.Excl {
			out = append(out, c)
		}
	}
	return out
}

func (g *lexGrammar) features() []string {
	f := map[string]bool{}
	names := map[string]int{}
	for _, r := range g.Rules {
		if r.Class {
			f["class"] = true
		}
		if r.Space {
			f["space"] = true
		}
		if r.Goto >= 0 {
			f["state-switch"] = true
		}
		if r.Name == "invalid_token" {
			f["explicit-invalid"] = true
		}
		if r.Prio != 0 {
			f["priority"] = true
		}
		if r.AST.HasKind(rxref.KEOI) {
			f["eoi-pattern"] = true
		}
		names[r.Name]++
		if names[r.Name] > 1 {
			f["shared-token"] = true
		}
	}
	for _, t := range g.Tags {
		f[t] = true
	}
	var out []string
	for k := range f {
		out = append(out, k)
	}
	sort.Strings(out)
	return out
}

// ---------------------------------------------------------------------------------------------
// AST helpers

func lits(s string) *rxref.Node {
	var sub []*rxref.Node
	for _, r := range s {
		sub = append(sub, rxref.Lit(r))
	}
	if len(sub) == 1 {
		return sub[0]
	}
	return rxref.Cat(sub...)
}

func cls(neg bool, bounds ...rune) *rxref.Node {
	var rs [][2]rune
	for i := 0; i+1 < len(bounds); i += 2 {
		rs = append(rs, [2]rune{bounds[i], bounds[i+1]})
	}
	return rxref.Class(neg, rs...)
}

func plus(n *rxref.Node) *rxref.Node { return rxref.Rep(n, 1, -1) }
func star(n *rxref.Node) *rxref.Node { return rxref.Rep(n, 0, -1) }

// tableClass is the class of a Go unicode range table (what \p{Name} means).
func tableClass(t *unicode.RangeTable) *rxref.Node {
	var rs [][2]rune
	add := func(lo, hi, stride rune) {
		if stride == 1 {
			rs = append(rs, [2]rune{lo, hi})
			return
		}
		for c := lo; c <= hi; c += stride {
			rs = append(rs, [2]rune{c, c})
		}
	}
	for _, r := range t.R16 {
		add(rune(r.Lo), rune(r.Hi), rune(r.Stride))
	}
	for _, r := range t.R32 {
		add(rune(r.Lo), rune(r.Hi), rune(r.Stride))
	}
	// merge adjacent singletons so that the class stays small
	sort.Slice(rs, func(i, j int) bool { return rs[i][0] < rs[j][0] })
	var out [][2]rune
	for _, r := range rs {
		if n := len(out); n > 0 && r[0] <= out[n-1][1]+1 {
			if r[1] > out[n-1][1] {
				out[n-1][1] = r[1]
			}
			continue
		}
		out = append(out, r)
	}
	return rxref.Class(false, out...)
}

func R(name string, ast *rxref.Node) rule { return rule{Name: name, AST: ast, Goto: -1} }

func (r rule) prio(p int) rule    { r.Prio = p; return r }
func (r rule) class() rule        { r.Class = true; return r }
func (r rule) space() rule        { r.Space = true; return r }
func (r rule) in(sc ...int) rule  { r.SC = sc; return r }
func (r rule) to(c int) rule      { r.Goto = c; return r }
func (r rule) text(t string) rule { r.Text = t; return r }
func kw(s string) rule            { return R("kw"+kwName(s), lits(s)) }
func kwp(s string, p int) rule    { return kw(s).prio(p) }
func idRule(ast *rxref.Node) rule { return R("id", ast).class() }
func wsRule() rule                { return R("ws", plus(cls(false, ' ', ' ', '\n', '\n'))).space() }
func conds(c ...cond) []cond      { return append([]cond{{Name: "initial"}}, c...) }
func incl(n string) cond          { return cond{Name: n} }
func excl(n string) cond          { return cond{Name: n, Excl: true} }
func fam(f string, r ...rule) *lexGrammar {
	return &lexGrammar{Family: f, Conds: conds(), Rules: r}
}

func kwName(s string) string {
	var b strings.Builder
	for _, r := range s {
		switch {
		case r >= 'a' && r <= 'z':
			b.WriteRune(r)
		case r >= 'A' && r <= 'Z':
			b.WriteString("U" + string(r+32))
		default:
			fmt.Fprintf(&b, "x%x", r)
		}
	}
	return b.String()
}

// ---------------------------------------------------------------------------------------------
// enumerated rule sets (rxref enumerator, stride samples per level) x decorations

func c11Atoms() []*rxref.Node {
	a := rxref.AtomsC09(false) // a b [ab] . {eoi} {p} {q} {r}
	return append(a, rxref.Lit(0xe9), cls(false, 0x80, 0xff), rxref.Lit('A'), rxref.Lit(' '), rxref.Lit('\n'))
}

const maxNodes = 4

type level struct{ k, total, want int }

// The levels in size order and how many rule sets are taken from each.
var levels = []level{
	{1, 1, 5}, {1, 2, 6}, {1, 3, 6}, {1, 4, 6},
	{2, 2, 9}, {2, 3, 11}, {2, 4, 11}, {2, 5, 10}, {2, 6, 6},
	{3, 3, 9}, {3, 4, 11}, {3, 5, 10}, {3, 6, 8},
	{4, 4, 6}, {4, 5, 6}, {4, 6, 5},
}

const numDecorations = 7

// decorate applies decoration d to a plain rule set (nil when it does not apply).
func decorate(base []*rxref.Node, prios []int, d, j int) *lexGrammar {
	k := len(base)
	g := &lexGrammar{Family: "enum", Conds: conds()}
	for i, ast := range base {
		g.Rules = append(g.Rules, R(fmt.Sprintf("t%d", i), ast).prio(prios[i]))
	}
	switch d {
	case 0: // plain
		g.Tags = []string{"enum:plain"}
	case 1: // one of the rules is a space rule
		g.Rules[j%k].Space = true
		g.Tags = []string{"enum:space-rule"}
	case 2: // extra low-priority space rule
		g.Rules = append(g.Rules, R("ws", plus(cls(false, ' ', ' ', '\n', '\n'))).prio(-1).space())
		g.Tags = []string{"enum:extra-space"}
	case 3: // two rules return the same token (rule -> token table instead of inlined tokens)
		if k < 2 {
			return nil
		}
		g.Rules[1].Name = "t0"
		g.Tags = []string{"enum:shared-token"}
	case 4: // explicit invalid_token rule
		g.Rules[j%k].Name = "invalid_token"
		g.Tags = []string{"enum:explicit-invalid"}
	case 5: // two start conditions switched by lexer actions
		g.Conds = conds(cond{Name: "alt", Excl: (j/numDecorations)%2 == 1})
		g.Rules[0].SC = []int{0}
		g.Rules[0].Goto = 1
		for i := 1; i < k; i++ {
			g.Rules[i].SC = [][]int{{0}, {1}, {0, 1}}[(j+i)%3]
		}
		g.Rules = append(g.Rules, R("back", rxref.Lit('A')).prio(2).in(1).to(0))
		g.Tags = []string{"enum:start-conditions"}
	case 6: // a class rule below everything: constant rules become its keywords
		g.Rules = append(g.Rules, R("id", plus(cls(false, 'a', 'z'))).prio(-1).class())
		g.Tags = []string{"enum:class"}
	}
	return g
}

func enumGrammars() []*lexGrammar {
	bySize := rxref.Regexes(c11Atoms(), maxNodes)
	var out []*lexGrammar
	j := 0
	for _, lv := range levels {
		comps := rxref.Compositions(lv.k, lv.total, maxNodes)
		total := 0
		var counts []int
		for _, sz := range comps {
			n := rxref.TupleCount(bySize, sz)
			counts = append(counts, n)
			total += n
		}
		pvs := rxref.PrioVectors(lv.k)
		tuple := make([]*rxref.Node, lv.k)
		at := func(idx int) []*rxref.Node {
			for ci, n := range counts {
				if idx < n {
					rxref.Tuple(bySize, comps[ci], idx, tuple)
					return tuple
				}
				idx -= n
			}
			return nil
		}
		got := 0
		for s := 0; s < lv.want; s++ {
			// stride sample: the first candidate at or after s*total/want that passes the
			// domain pre-filter under this sample's decoration
			lo, hi := s*total/lv.want, (s+1)*total/lv.want
			for idx := lo; idx < hi && idx < lo+4000; idx++ {
				base := append([]*rxref.Node{}, at(idx)...)
				pv := pvs[(j+idx)%len(pvs)]
				g := decorate(base, pv, j%numDecorations, j)
				if g == nil {
					g = decorate(base, pv, 4, j)
				}
				if !g.plausible() {
					continue
				}
				out = append(out, g)
				got++
				break
			}
			j++
		}
	}
	return out
}

// ---------------------------------------------------------------------------------------------
// hand-written families

func craftedGrammars() []*lexGrammar {
	az := func() *rxref.Node { return plus(cls(false, 'a', 'z')) }
	azAZ := func() *rxref.Node { return plus(cls(false, 'a', 'z', 'A', 'Z')) }
	letterL := tableClass(unicode.L)
	var gs []*lexGrammar
	add := func(g *lexGrammar) *lexGrammar { gs = append(gs, g); return g }

	// --- (class) rules and keyword specialisation
	add(fam("class", idRule(az()), kw("a")))
	add(fam("class", idRule(az()), kw("ab"), kw("ba")))
	add(fam("class", idRule(az()), kw("a"), kw("ab"))) // same hash bucket (97 and 3105 mod 8)
	add(fam("class", idRule(az()), kwp("ab", 1), kwp("ba", 1), kwp("a", 1)))
	add(fam("class", idRule(azAZ()), kw("a"), kw("A"), kw("ab"), kw("Ab"), kw("AB")))
	add(fam("class", idRule(plus(cls(false, 'a', 'b'))), kw("a"), kw("b"), kw("aa"), kw("ab"), kw("ba"), kw("bb"), kw("aaa"), kw("aab"), kw("aba"))) // 9 keywords: 16 buckets
	add(fam("class", idRule(plus(rxref.Alt(rxref.Lit(0xe9), cls(false, 'a', 'z')))), kw("é"), kw("aé"), kw("a")))
	add(fam("class", idRule(plus(rxref.Alt(rxref.Lit(0xe9), cls(false, 'a', 'z')))), kw("a"), kw("ab"), wsRule()))
	add(fam("class", idRule(plus(letterL)).text(`\p{L}+`), kw("a"), kw("é"), kw("ab"), wsRule()))
	add(fam("class", idRule(az()), R("uid", plus(cls(false, 'A', 'Z'))).class(), kw("a"), kw("A"), kw("AA"), kw("ab")))
	add(fam("class", idRule(az()), R("kwa", lits("a")).space(), kw("ab"), wsRule()))
	add(fam("class", idRule(az()), kw("ab"), wsRule(), R("invalid_token", plus(rxref.Lit('A')))))
	add(fam("class", idRule(az()), R("k1", lits("a")), R("k1", lits("b")), kw("ab")))
	add(fam("class", idRule(az()), kw("ab"), R("t0", rxref.Cat(rxref.Lit('a'), cls(false, 'a', 'b'))).prio(1))) // t0 beats the class rule on "ab"
	add(fam("class", idRule(az()), kw("ab"), R("t0", rxref.Cat(cls(false, 'a', 'b'), rxref.Lit('A')))))
	add(fam("class", idRule(plus(cls(false, 'a', 'b', ' ', ' '))), R("kwsp", lits(" ")), R("kwab", lits("ab")).prio(1), R("nl", lits("\n")).space())) // " " stays a constant under caseInsensitive
	// keywords that stay constants under caseInsensitive (no case variants): space, newline, 😀
	add(fam("class", idRule(plus(cls(false, 'a', 'z', ' ', ' '))), R("kwsp", lits(" ")), R("kwsp2", lits("  ")), kwp("ab", 1), R("nl", lits("\n"))))
	add(fam("class", idRule(plus(rxref.Alt(lits("😀"), cls(false, 'a', 'z')))), R("kwe", lits("😀")), R("kwae", lits("a😀")).prio(1), kwp("a", 1), wsRule()))
	add(fam("class", idRule(plus(cls(false, 'a', 'b', ' ', ' ', '\n', '\n'))), R("kwnl", lits("\n")), R("kwsn", lits(" \n")), R("kwa", lits("a")).prio(1), R("t0", lits("A"))))
	add(fam("class", idRule(plus(rxref.Alt(lits("😀"), lits("é"), cls(false, 'a', 'b')))), R("kwe", lits("😀")), R("kwee", lits("😀😀")), R("kwx", lits("é")).prio(1), R("sp", lits(" ")).space()))
	add(fam("class", idRule(az()), kw("ab"), kw("b"), R("x", lits("ab AA")), wsRule())).Tags = []string{"class+backtracking"} // backtracking restores the keyword hash
	add(fam("class", idRule(az()), kw("ab"), kw("a"), R("x", lits("ab\nA")), wsRule())).Tags = []string{"class+backtracking"} // … across a newline
	add(fam("class", idRule(az()), kw("a"), kw("ab"), R("x", lits("abbA")))).Tags = []string{"class+backtracking"}
	add(&lexGrammar{Family: "class", Conds: conds(incl("alt")), Rules: []rule{
		idRule(az()), kw("ab"), kw("a"), R("go", lits("A")).in(0).to(1), R("back", lits("A")).in(1).to(0), R("t1", lits("bA")).in(1), wsRule()}})
	add(&lexGrammar{Family: "class", Conds: conds(excl("alt")), Rules: []rule{
		idRule(az()).in(0), kw("ab").in(0), R("go", lits("A")).in(0).to(1), R("t1", plus(lits("a"))).in(1), R("back", lits("A")).in(1).to(0), wsRule().in(0, 1)}})
	add(&lexGrammar{Family: "class", Conds: conds(excl("alt")), Rules: []rule{
		idRule(az()).in(0, 1), kw("ab").in(0, 1), kw("b").in(0, 1), R("go", lits("A")).in(0).to(1), R("back", lits("A")).in(1).to(0), R("sp", lits(" ")).in(1).space()}})
	add(fam("class", idRule(plus(cls(false, 'a', 'z', 0xe9, 0xe9))), kw("é"), kw("éa"), kw("b")))
	add(fam("class", idRule(rxref.Cat(cls(false, 'a', 'b'), star(cls(false, 'a', 'b', 'A', 'A')))), kw("a"), kw("aA"), kw("bAb"), wsRule()))

	// class rules the compiler has to reject (empty match, two identical class rules): the rejection
	// is counted; an accepted grammar is reported (see run)
	add(fam("class", idRule(star(cls(false, 'a', 'z'))), kw("ab"), R("t0", lits("A")))).Tags = []string{"class:invalid"}
	add(fam("class", idRule(az()), R("id2", plus(cls(false, 'a', 'b'))).class(), kw("ab"), R("t0", lits("A")))).Tags = []string{"class:invalid"}

	// --- (space) rules, explicit and implicit invalid tokens, newlines
	add(fam("space", R("t0", plus(lits("a"))), wsRule()))
	add(fam("space", R("t0", plus(lits("a"))), R("sp", lits(" ")).space(), R("nl", lits("\n")).space()))
	add(fam("space", R("t0", plus(lits("a"))), R("com", rxref.Cat(rxref.Lit('b'), star(cls(true, '\n', '\n')))).space(), wsRule()))
	add(fam("space", R("t0", plus(lits("a"))), R("invalid_token", plus(lits("A"))), wsRule()))
	add(fam("space", R("t0", plus(cls(false, 'a', 'b'))), R("invalid_token", plus(cls(true, 'a', 'b', ' ', ' ', '\n', '\n'))), wsRule()))
	// (a token is either a space token or not: two rules of one token carry the same attribute)
	add(fam("space", R("t0", lits("a")).space(), R("t0", lits("b")).space(), R("t1", lits("A"))))
	add(fam("space", R("t0", lits("a")).space(), R("t0", plus(lits(" "))).space(), R("t1", lits("A")), R("t1", lits("b\n"))))
	add(fam("space", R("ws", plus(cls(true, '\n', '\n'))).space(), R("nl", lits("\n"))))
	add(fam("space", R("id", plus(cls(false, 'a', 'z', 'A', 'A'))), R("nl", lits("\n")), R("sp", plus(lits(" "))).space()))
	add(fam("space", R("t0", lits("a\nb")), R("t1", cls(false, 'a', 'b')), wsRule()))
	add(fam("space", R("any", rxref.Dot()), R("nl", lits("\n")).space()))
	add(fam("space", R("last", rxref.Cat(plus(lits("a")), rxref.Alt(rxref.Lit('\n'), rxref.EOI()))), R("t0", plus(lits("a"))), R("sp", lits(" ")).space()))
	add(fam("space", R("invalid_token", rxref.Cat(rxref.Lit('a'), rxref.EOI())), R("t0", rxref.Cat(plus(lits("a")), rxref.Lit('b'))), wsRule()))
	add(fam("space", R("t0", plus(lits("é"))), R("t1", lits("😀")), R("sp", cls(false, ' ', ' ', '\n', '\n')).space()))
	add(fam("space", R("t0", lits("a")), R("nl", plus(lits("\n"))).space(), R("sp", plus(lits(" ")))))                                             // only newlines are skipped
	add(fam("space", R("t0", plus(cls(false, 'a', 'b'))), R("com", rxref.Cat(rxref.Lit('A'), star(cls(true, 'A', 'A')), rxref.Lit('A'))).space())) // multi-line comment A…A

	// --- start conditions
	add(&lexGrammar{Family: "states", Conds: conds(incl("alt")), Rules: []rule{
		R("go", lits("A")).in(0).to(1), R("back", lits("A")).in(1).to(0), R("t0", plus(lits("a"))), R("t1", plus(lits("b"))).in(1), wsRule()}})
	add(&lexGrammar{Family: "states", Conds: conds(excl("alt")), Rules: []rule{
		R("go", lits("A")).in(0).to(1), R("back", lits("A")).in(1).to(0), R("t0", plus(lits("a"))), R("t1", plus(cls(false, 'a', 'b'))).in(1), wsRule().in(0, 1)}})
	add(&lexGrammar{Family: "states", Conds: conds(incl("mid"), excl("far")), Rules: []rule{
		R("s0", lits("A")).in(0).to(1), R("s1", lits("A")).in(1).to(2), R("s2", lits("A")).in(2).to(0),
		R("t0", plus(lits("a"))), R("t1", plus(lits("b"))).in(1, 2), R("t2", lits("a")).in(2), wsRule().in(0, 2)}})
	add(&lexGrammar{Family: "states", Conds: conds(excl("alt")), Rules: []rule{
		R("open", lits("A")).in(0).to(1).space(), R("close", lits("A")).in(1).to(0).space(), R("body", plus(cls(true, 'A', 'A'))).in(1),
		R("t0", plus(cls(false, 'a', 'b'))), wsRule()}})
	add(&lexGrammar{Family: "states", Conds: conds(excl("alt")), Rules: []rule{
		R("t0", lits("a")).in(0), R("t1", lits("a")).in(1), R("go", lits("b")).in(0).to(1), R("back", lits("b")).in(1).to(0)}})
	add(&lexGrammar{Family: "states", Conds: conds(excl("alt")), Rules: []rule{
		R("t0", plus(cls(false, 'a', 'b'))).in(0), R("go", lits("\n")).in(0).to(1), R("back", lits("\n")).in(1).to(0), R("t1", lits("A")).in(1)}}) // state switched per line
	add(&lexGrammar{Family: "states", Conds: conds(incl("alt")), Rules: []rule{
		R("t0", lits("ab")), R("t0", lits("ab A")).in(1), R("go", lits("A")).to(1), R("back", lits(" ")).in(1).to(0).prio(1), R("sp", lits(" ")).in(0).space()}}) // backtracking in one state only
	add(&lexGrammar{Family: "states", Conds: conds(incl("alt")), Rules: []rule{
		R("t0", plus(lits("a"))).to(1), R("t1", plus(lits("a"))).in(1).prio(1).to(0), R("t2", lits("b"))}}) // alternating tokens
	add(&lexGrammar{Family: "states", Conds: conds(excl("alt")), Rules: []rule{
		R("go", lits("a")).in(0).to(1).space(), R("t1", plus(cls(true, '\n', '\n'))).in(1), R("back", lits("\n")).in(1).to(0).space(), R("t0", lits("b")).in(0)}})
	add(&lexGrammar{Family: "states", Conds: conds(excl("alt")), Rules: []rule{
		R("invalid_token", lits("A")).in(0).to(1), R("t1", rxref.Cat(rxref.Lit('a'), rxref.EOI())).in(1), R("t0", lits("a")).in(0, 1), R("back", lits("b")).in(1).to(0)}})

	// --- large symbol maps (compressed rune ranges above U+00FF)
	big := func(g *lexGrammar) {
		g.Tags = append(g.Tags, "large-map")
		g.Extra = boundaryInputs(g)
		add(g)
	}
	big(fam("maps", R("l", plus(letterL)).text(`\p{L}+`), wsRule()))
	big(fam("maps", R("cy", plus(cls(false, 0x400, 0x4ff))).text(`[Ѐ-ӿ]+`), R("t0", lits("a"))))
	big(fam("maps", R("cy", plus(cls(false, 0x400, 0x4ff))).text(`[Ѐ-ӿ]+`), R("e", lits("😀"))))
	big(fam("maps", R("e", plus(lits("😀"))), R("t0", plus(cls(false, 'a', 'b')))))
	big(fam("maps", R("n", plus(cls(true, 'a', 'a', '\n', '\n', ' ', ' '))), R("t0", lits("a"))))
	big(fam("maps", R("l", plus(letterL)).text(`\p{L}+`), R("e", cls(false, 0x1f600, 0x1f64f))))
	// (inside brackets: how a stand-alone \p{Lu} behaves under caseInsensitive is C10's business)
	big(fam("maps", R("lu", tableClass(unicode.Lu)).text(`[\p{Lu}]`), R("ll", plus(tableClass(unicode.Ll))).text(`[\p{Ll}]+`)))
	big(fam("maps", R("t0", plus(lits("é"))), R("t1", cls(false, 0x80, 0xff)).prio(-1), R("e", lits("😀"))))
	big(fam("maps", R("any", rxref.Dot()).prio(-1), R("e", lits("😀")), R("ee", lits("😀😀"))))
	big(fam("maps", R("r1", plus(cls(false, 0x100, 0x108))), R("r2", plus(cls(false, 0x10a, 0x112))), R("r3", cls(false, 0x2000, 0x2009)), R("t0", lits("a")))) // short ranges with gaps: one compressed entry
	big(fam("maps", R("r1", cls(false, 0x100, 0x100, 0x102, 0x102, 0x104, 0x104)), R("r2", cls(false, 0x101, 0x101, 0x103, 0x103)), R("r3", plus(cls(false, 0x900, 0x97f))), R("t0", plus(lits("a")))))
	// last map entry between U+0800 and U+1000 (no letters with case variants)
	big(fam("maps", R("dev", plus(cls(false, 0x900, 0x97f))), R("t0", lits("a"))))
	big(fam("maps", R("thai", plus(cls(false, 0xe01, 0xe3a))), R("dev", cls(false, 0x900, 0x97f)), R("t0", plus(lits("b")))))
	big(fam("maps", R("dev", plus(cls(false, 0x900, 0x97f))), R("thai", plus(cls(false, 0xe01, 0xe3a))), wsRule()))
	big(fam("maps", R("l", plus(letterL)).text(`\p{L}+`), R("nd", plus(tableClass(unicode.Nd))).text(`\p{Nd}+`), R("e", lits("😀")), wsRule()))

	// --- equal-length matches and explicit priorities
	add(fam("prio", R("t0", lits("a")), R("t1", cls(false, 'a', 'b')).prio(1)))
	add(fam("prio", R("t0", lits("a")).prio(1), R("t1", cls(false, 'a', 'b'))))
	add(fam("prio", R("t0", lits("ab")).prio(-1), R("t1", rxref.Cat(rxref.Lit('a'), cls(false, 'a', 'b')))))
	add(fam("prio", R("t0", plus(cls(false, 'a', 'b'))), R("t1", plus(lits("a"))).prio(1), R("t2", lits("aa")).prio(2)))
	add(fam("prio", R("t0", plus(lits("a"))).prio(2), R("t1", plus(cls(false, 'a', 'a', 'A', 'A'))).prio(1), R("t2", rxref.Dot())))
	add(fam("prio", R("t0", lits("a")).prio(5), R("t1", lits("ab")))) // longest match beats priority
	add(fam("prio", R("t0", rxref.Dot()).prio(-2), R("t1", cls(true, 'a', 'a')).prio(-1), R("t2", lits("b")), R("nl", lits("\n"))))
	add(fam("prio", R("t0", lits("a")), R("t0", cls(false, 'a', 'b')), R("t1", lits("A")))) // same token twice: one action, no conflict

	// --- backtracking
	bt := func(g *lexGrammar) { g.Tags = append(g.Tags, "backtracking"); add(g) }
	bt(fam("backtrack", R("t0", lits("ab")), R("t1", lits("abab"))))
	bt(fam("backtrack", R("t0", lits("a")), R("t1", lits("abb"))))
	bt(fam("backtrack", R("t0", lits("a")), R("t1", lits("a b"))))
	bt(fam("backtrack", R("t0", lits("a")), R("t1", lits("a\nb")), wsRule()))
	bt(fam("backtrack", R("t0", lits("a")), R("t1", lits("a\n\nb")), R("nl", lits("\n"))))
	bt(fam("backtrack", R("t0", lits("a")), R("t1", lits("aé😀"))))
	bt(fam("backtrack", R("t0", lits("a")), R("t1", rxref.Cat(rxref.Lit('a'), star(lits("ab")), rxref.Lit('A')))))
	bt(fam("backtrack", R("t0", lits("a")), R("t1", rxref.Cat(lits("ab"), rxref.EOI())), R("t2", lits("b"))))
	bt(fam("backtrack", R("sp", lits(" ")).space(), R("t1", lits(" \n ")), R("t0", lits("a")), R("nl", lits("\n"))))
	bt(fam("backtrack", R("t0", lits("a")), R("t1", lits("aba")), R("t2", lits("ababA"))))
	bt(fam("backtrack", R("t0", lits("a")), R("t0", lits("abb")), R("t1", lits("b")))) // shared token + backtracking
	bt(fam("backtrack", R("t0", lits("é")), R("t1", lits("éé😀")), R("invalid_token", lits("😀"))))
	// Preferred option bits for the single subset of the quick tier.
	nClass, nMaps, nBT := 0, 0, 0
	for _, g := range gs {
		tagged := func(t string) bool {
			for _, x := range g.Tags {
				if x == t {
					return true
				}
			}
			return false
		}
		switch {
		case g.Family == "class":
			nClass++
			nonASCII := false
			for _, r := range g.Rules {
				if t, ok := constOf(r.AST, rxref.Opts{}); ok && !r.Class && len(t) != len([]rune(t)) {
					nonASCII = true
				}
			}
			switch {
			case tagged("class+backtracking"):
				g.Off = optNonBacktracking | optCaseInsensitive
			case nonASCII && nClass%3 != 0:
				g.On, g.Off = optScanBytes, optCaseInsensitive // keyword hashing over bytes
			case g.plausibleUnder(optCaseInsensitive) && nClass%2 == 0:
				g.On = optCaseInsensitive // keywords without case variants stay keywords
			default:
				g.Off = optCaseInsensitive // letter keywords are no constants under folding: rejected
			}
		case g.Family == "maps":
			nMaps++
			if nMaps%5 != 0 {
				g.Off = optScanBytes // characters above 0xff are rejected in byte mode
			}
		case tagged("backtracking"):
			nBT++
			if nBT%4 != 0 {
				g.Off = optNonBacktracking
			}
		}
		if tagged("backtracking") || tagged("class+backtracking") {
			for _, r := range g.Rules {
				if t, ok := constOf(r.AST, rxref.Opts{}); ok && len(t) > 1 && strings.Contains(t, "\n") {
					// backtracking across a newline: line and column have to be restored
					g.On |= optTokenLine | optTokenColumn
					g.Off |= optNonBacktracking
				}
			}
		}
	}
	return gs
}

// boundaryInputs builds the extra input alphabet of a large-map grammar: "a" plus the first
// class boundaries above U+00FF (first member of an interval and the character before it), so
// that off-by-one errors in the rune-range lookup are observable. Words of at most two letters.
func boundaryInputs(g *lexGrammar) *extraInputs {
	m := rxref.NewMatcher(rxref.Opts{}, rxref.NamedPatterns())
	seen := map[int32]bool{}
	var pts []int32
	for _, r := range g.Rules {
		sets, _ := m.LeafSets(r.AST)
		n := 0
		for _, s := range sets {
			for i := 0; i < len(s) && n < 10; i += 2 {
				for _, p := range []int32{s[i] - 1, s[i], s[i+1], s[i+1] + 1} {
					if p > 0xff && p <= unicode.MaxRune && !(p >= 0xd800 && p <= 0xdfff) && !seen[p] {
						seen[p] = true
						pts = append(pts, p)
						n++
					}
				}
			}
		}
	}
	sort.Slice(pts, func(i, j int) bool { return pts[i] < pts[j] })
	if len(pts) > 24 {
		pts = append(pts[:16], pts[len(pts)-8:]...)
	}
	letters := []string{"a"}
	for _, p := range pts {
		letters = append(letters, string(rune(p)))
	}
	return &extraInputs{Letters: letters, MaxLen: 2}
}

// buildGrammars returns the deterministic grammar list. The families are interleaved so that the
// rotating option subsets (global index mod 32) spread over every family.
func buildGrammars() []*lexGrammar {
	byFam := map[string][]*lexGrammar{}
	var order []string
	for _, g := range append(append(craftedGrammars(), targetedGrammars()...), enumGrammars()...) {
		if _, ok := byFam[g.Family]; !ok {
			order = append(order, g.Family)
		}
		byFam[g.Family] = append(byFam[g.Family], g)
	}
	// the enumerated family is split into three interleaved lanes (it is the largest)
	lanes := [][]*lexGrammar{}
	for _, f := range order {
		l := byFam[f]
		if f == "enum" {
			for s := 0; s < 3; s++ {
				var part []*lexGrammar
				for i := s; i < len(l); i += 3 {
					part = append(part, l[i])
				}
				lanes = append(lanes, part)
			}
			continue
		}
		lanes = append(lanes, l)
	}
	var natural []*lexGrammar
	for round := 0; ; round++ {
		any := false
		for _, l := range lanes {
			if round < len(l) {
				natural = append(natural, l[round])
				any = true
			}
		}
		if !any {
			break
		}
	}
	// Slotting: position i gets option subset i mod 32 in pass 0. Grammars with preferred bits
	// take the nearest free position whose subset fits, the others fill the remaining positions
	// in order. Every position is filled, so every subset is still used by >= floor(N/32) grammars.
	n := len(natural)
	out := make([]*lexGrammar, n)
	for i, g := range natural {
		if g.On == 0 && g.Off == 0 {
			continue
		}
		for d := 0; d < n; d++ {
			s := (i + d) % n
			if out[s] == nil && s%32&g.On == g.On && s%32&g.Off == 0 {
				out[s] = g
				break
			}
		}
	}
	next := 0
	for _, g := range natural {
		if g.On != 0 || g.Off != 0 {
			placed := false
			for _, o := range out {
				if o == g {
					placed = true
					break
				}
			}
			if placed {
				continue
			}
		}
		for out[next] != nil {
			next++
		}
		out[next] = g
	}
	return out
}

// targetedGrammars: two families aimed at interactions the other families do not reach.
//
// "hibytes": classes over bytes 0x80..0xff. In byte mode case folding concerns ASCII letters only,
// so under scanBytes + caseInsensitive a class with the byte c3 must not match e3 (the Latin-1
// partner); every grammar exists once for {scanBytes, caseInsensitive} and once for {scanBytes}
// in the quick tier's subset (the slotting spreads them over the other three options), and runs
// on words over high bytes that are Latin-1 case partners (c3/e3, c9/e9, d0/f0), bytes without a
// partner (df, ff) and continuation bytes.
//
// "backtrack" (shared tail): two or three different short tokens that are prefixes of one longer
// token with a common remainder, so that the fall-back token depends on the path by which the
// longer attempt was entered.
func targetedGrammars() []*lexGrammar {
	var gs []*lexGrammar
	hiLetters := []string{"a", "\xc3", "\xe3", "\xc9", "\xe9", "\xd0", "\xf0", "\xdf", "\xff", "\x82", "\xac"}
	nHi := 0
	hi := func(rules ...rule) {
		// grammar j gets tokenLine/tokenColumn/nonBacktracking = the bits of j: the eight grammars
		// cover the eight subsets with {scanBytes, caseInsensitive} and the eight with {scanBytes} only
		rest := nHi&1*optTokenLine | nHi>>1&1*optTokenColumn | nHi>>2&1*optNonBacktracking
		nHi++
		for _, fold := range []bool{true, false} {
			g := &lexGrammar{Family: "hibytes", Conds: conds(), Rules: rules, Tags: []string{"high-byte-classes"},
				Extra: &extraInputs{Letters: hiLetters, MaxLen: 3}}
			g.On = optScanBytes | rest
			if fold {
				g.On |= optCaseInsensitive
			}
			g.Off = 31 &^ g.On
			gs = append(gs, g)
		}
	}
	hi(R("t0", cls(false, 0xc3, 0xc3)))
	hi(R("latin", rxref.Cat(cls(false, 0xc2, 0xdf), cls(false, 0x80, 0xbf))), R("word", plus(cls(false, 'a', 'z'))))
	hi(R("three", rxref.Cat(cls(false, 0xe0, 0xef), cls(false, 0x80, 0xbf), cls(false, 0x80, 0xbf))), R("latin", rxref.Cat(cls(false, 0xc2, 0xdf), cls(false, 0x80, 0xbf))))
	hi(R("hi", plus(cls(false, 0x80, 0xff))), R("t0", lits("a")))
	hi(R("up", plus(cls(false, 0xc0, 0xde))), R("lo", plus(cls(false, 0xe0, 0xfe))))
	hi(R("neg", plus(cls(true, 0xc3, 0xc3, '\n', '\n'))), R("nl", lits("\n")).space())
	hi(R("t0", cls(false, 0xc9, 0xc9, 0xd0, 0xd0)), R("t1", plus(cls(false, 0xe3, 0xe3, 0xdf, 0xdf))), R("t2", lits("a")))
	hi(R("t0", plus(cls(false, 0xdf, 0xdf, 0xff, 0xff))), R("t1", rxref.Cat(cls(false, 0xc3, 0xc9), rxref.Lit('a'))), R("t2", cls(false, 0xf0, 0xf0)))

	n := 0
	tail := func(extra *extraInputs, rules ...rule) {
		g := &lexGrammar{Family: "backtrack", Conds: conds(), Rules: rules, Tags: []string{"backtracking", "backtracking:shared-tail"}, Extra: extra}
		g.Off = optNonBacktracking
		if n%2 == 1 {
			g.On = optScanBytes
		} else {
			g.Off |= optScanBytes
		}
		if n%4 < 3 { // (a and A are different tokens in two of them: no folding there)
			g.Off |= optCaseInsensitive
		}
		n++
		gs = append(gs, g)
	}
	ab := func() *rxref.Node { return cls(false, 'a', 'b') }
	tail(nil, R("ta", lits("a")), R("tb", lits("b")), R("long", rxref.Cat(ab(), lits("AA"))))
	tail(nil, R("ta", lits("a")), R("tb", lits("b")), R("long", rxref.Cat(rxref.Alt(lits("a"), lits("b")), lits("A ")))) // literals instead of a class
	tail(nil, R("ta", lits("a")), R("tb", lits("b")), R("tc", lits("A")), R("long", rxref.Cat(cls(false, 'a', 'b', 'A', 'A'), lits("  "))))
	tail(nil, R("ta", lits("a")), R("tb", lits("b")), R("long", rxref.Cat(ab(), lits("\n\n"))), R("nl", lits("\n")).space())         // fall back across newlines
	tail(nil, R("ta", lits("a")).space(), R("tb", lits("b")), R("long", rxref.Cat(ab(), lits("AA"))), R("invalid_token", lits(" "))) // rule -> token table: the fall-back carries (space)
	tail(nil, R("ta", lits("ab")), R("tb", lits("ba")), R("long", rxref.Cat(rxref.Alt(lits("ab"), lits("ba")), lits("AA"))))
	tail(nil, R("ta", lits("a")), R("tb", lits("b")), R("long", rxref.Cat(ab(), plus(lits("A")), lits("b")))) // loop inside the common remainder
	tail(nil, R("ta", ab()), R("tb", lits("A")), R("tc", lits(" ")), R("long", rxref.Cat(cls(false, 'a', 'b', 'A', 'A', ' ', ' '), lits("é"), lits("a"))))
	// multi-byte remainder: in byte mode the long attempt can fail inside 😀
	emoji := &extraInputs{Letters: []string{"a", "é", "\xf0", "\x9f", "\x98", "\x80", "b"}, MaxLen: 4}
	tail(emoji, R("ta", lits("é")), R("tb", lits("a")), R("long", rxref.Cat(rxref.Alt(lits("é"), lits("a")), lits("😀b"))))
	tail(emoji, R("ta", lits("é")), R("tb", lits("a")), R("long", rxref.Cat(rxref.Alt(lits("é"), lits("a")), lits("😀b"))))
	return gs
}
