// C11: generated Go lexers tokenize exactly as the lexer rules specify (Layer B), plus the
// generated-lexer half of C12 (progress, tiling, EOI repeats, line/column of the first byte).
//
// Lexer-only grammars (genParser = false) are printed from a small model (grammars.go), generated
// with the real compiler.Compile + gen.Generate, built with `go build` (internal/genharness) and run
// on every input of a bounded alphabet. The generated Lexer's token stream (symbol, byte offsets,
// line, column, three calls at the end of the input) is compared with a reference tokenizer
// (oracle.go) that is written from the property statement on top of the Brzozowski-derivative
// matcher of internal/rxref. lex.Tables.Scan, the compiled tables and grammar.Lexer are NOT used
// by the reference (they share code with the generator); only the symbol names of the compiled
// grammar are read, as a cross-check of the token numbering.
//
// Option subsets: the five options {tokenLine, tokenColumn, scanBytes, nonBacktracking,
// caseInsensitive} give 32 subsets. Pass p builds grammar i under subset (i+p) mod 32; quick runs
// pass 0 (every subset is used by >= floor(N/32) grammars), thorough runs passes 0..31 (every
// grammar under every subset) until the soft budget expires.
package main

import (
	"encoding/hex"
	"encoding/json"
	"fmt"
	"io"
	"log"
	"os"
	"sort"
	"strconv"
	"strings"
	"sync"
	"time"

	"github.com/inspirer/textmapper/grammar"

	"verif/internal/core"
	"verif/internal/genharness"
	"verif/internal/rxref"
)

func main() {
	// log.Fatal inside the code under test becomes a recoverable panic (genharness.Generate runs
	// under core.Guard): the logger's writer panics before os.Exit is reached.
	log.SetOutput(panicWriter{})
	if len(os.Args) > 1 && os.Args[1] == "dump" {
		dump(os.Args[2:])
		return
	}
	core.Main("C11", "exploration", run, replay, nil)
}

type panicWriter struct{}

func (panicWriter) Write(p []byte) (int, error) { panic("log output: " + string(p)) }

var _ io.Writer = panicWriter{}

// ---------------------------------------------------------------------------------------------
// inputs

var alphabet = []string{"a", "b", "A", " ", "\n", "é", "😀", "\xff"}

type inputSet struct {
	letters []string
	maxLen  int
	words   []string
	syms    [2][][]rxref.Sym // [0] rune mode, [1] byte mode
}

func newInputSet(letters []string, maxLen int) *inputSet {
	is := &inputSet{letters: letters, maxLen: maxLen, words: rxref.Words(letters, maxLen)}
	for m := 0; m < 2; m++ {
		is.syms[m] = make([][]rxref.Sym, len(is.words))
		for i, w := range is.words {
			is.syms[m][i] = rxref.Decode(w, m == 1)
		}
	}
	return is
}

// caseText encodes the input set for the driver: "<maxLen>;<hex>,<hex>,…" (hex because the
// harness transports case texts as JSON strings, which cannot carry invalid UTF-8).
func (is *inputSet) caseText() string {
	var hx []string
	for _, l := range is.letters {
		hx = append(hx, hex.EncodeToString([]byte(l)))
	}
	return strconv.Itoa(is.maxLen) + ";" + strings.Join(hx, ",")
}

// ---------------------------------------------------------------------------------------------
// driver (in-package source added to every generated lexer package)

func driver(g *grammar.Grammar, name string) string {
	line, col := "0", "0"
	if g.Options.TokenLine {
		line = "l.Line()"
	}
	if g.Options.TokenColumn {
		col = "l.Column()"
	}
	return `package ` + name + `

import (
	"encoding/hex"
	"fmt"
	"strconv"
	"strings"
	"sync"

	"scratch/rt"
	"scratch/` + name + `/token"
)

// verifLexOne records "sym:off:end:line:col " for every token up to the third end-of-input token.
func verifLexOne(text string) (out string) {
	defer func() {
		if e := recover(); e != nil {
			out = "PANIC " + fmt.Sprint(e)
		}
	}()
	var l Lexer
	l.Init(text)
	budget := 4*len(text) + 8
	b := make([]byte, 0, 96)
	eois := 0
	for i := 0; ; i++ {
		if i > budget {
			b = append(b, "LOOP"...)
			break
		}
		tok := l.Next()
		s, e := l.Pos()
		b = strconv.AppendInt(b, int64(tok), 10)
		b = append(b, ':')
		b = strconv.AppendInt(b, int64(s), 10)
		b = append(b, ':')
		b = strconv.AppendInt(b, int64(e), 10)
		b = append(b, ':')
		b = strconv.AppendInt(b, int64(` + line + `), 10)
		b = append(b, ':')
		b = strconv.AppendInt(b, int64(` + col + `), 10)
		b = append(b, ' ')
		if tok == token.EOI {
			eois++
			if eois == 3 {
				break
			}
		}
	}
	return string(b)
}

func VerifRun(entry, mode, text string) (res rt.Result) {
	if mode == "one" {
		raw, _ := hex.DecodeString(text)
		res.Values = []string{verifLexOne(string(raw))}
		return res
	}
	// bulk: "<maxLen>;<hex letter>,…": every word of at most maxLen letters, shortest first
	semi := strings.IndexByte(text, ';')
	maxLen, _ := strconv.Atoi(text[:semi])
	var letters []string
	for _, h := range strings.Split(text[semi+1:], ",") {
		raw, _ := hex.DecodeString(h)
		letters = append(letters, string(raw))
	}
	words := []string{""}
	level := []string{""}
	for n := 0; n < maxLen; n++ {
		var next []string
		for _, s := range level {
			for _, a := range letters {
				next = append(next, s+a)
			}
		}
		words = append(words, next...)
		level = next
	}
	out := make([]string, len(words))
	const workers = 4
	var wg sync.WaitGroup
	for w := 0; w < workers; w++ {
		wg.Add(1)
		go func(w int) {
			defer wg.Done()
			for i := w; i < len(words); i += workers {
				out[i] = verifLexOne(words[i])
			}
		}(w)
	}
	wg.Wait()
	res.Values = out
	return res
}
`
}

// ---------------------------------------------------------------------------------------------
// findings

type rcase struct {
	GID     int    `json:"gid"`
	Family  string `json:"family"`
	Mask    int    `json:"mask"`
	Options string `json:"options"`
	Input   string `json:"input_hex"`
	Text    string `json:"input"` // quoted, informational
	TM      string `json:"tm"`
	Want    string `json:"want,omitempty"`
	Got     string `json:"got,omitempty"`
}

type finding struct {
	key, what string
	cost      int
	c         rcase
}

type collector struct {
	mu   sync.Mutex
	best map[string]*finding
	cnt  map[string]int
}

func (cl *collector) report(f finding) {
	cl.mu.Lock()
	defer cl.mu.Unlock()
	cl.cnt[f.key]++
	if b := cl.best[f.key]; b == nil || f.cost < b.cost || (f.cost == b.cost && f.c.TM+f.c.Input < b.c.TM+b.c.Input) {
		cp := f
		cl.best[f.key] = &cp
	}
}

func (cl *collector) flush(c *core.Ctx) {
	var keys []string
	for k := range cl.best {
		keys = append(keys, k)
	}
	sort.Strings(keys)
	for _, k := range keys {
		f := cl.best[k]
		c.Violate(k, fmt.Sprintf("%s [%d failing (lexer, input) pairs]", f.what, cl.cnt[k]), f.c)
	}
}

// ---------------------------------------------------------------------------------------------
// evaluation of one built lexer

type specInfo struct {
	gid  int
	g    *lexGrammar
	mask int
	tm   string
}

type lexerStats struct {
	evals    int64
	skipped  int64
	outcomes map[string]int64
	kinds    map[int]bool
}

func classifyGenErr(msg string) string {
	switch {
	case strings.Contains(msg, "two rules are identical"):
		return "identical-rules"
	case strings.Contains(msg, "accepts empty text"):
		return "empty-match"
	case strings.Contains(msg, "Needs backtracking"):
		return "needs-backtracking"
	case strings.Contains(msg, "exceeds \\uff") || strings.Contains(msg, "scanBytes") || strings.Contains(msg, "unknown unicode character class"):
		// (\p{…} is only known in rune mode)
		return "not-byte-compatible"
	case strings.Contains(msg, "must be applicable in the same set of start conditions"):
		return "class-start-conditions"
	case strings.Contains(msg, "class rule without specializations"):
		return "class-without-specializations"
	}
	return "other"
}

// evalLexer compares the recorded streams of one lexer with the reference.
func evalLexer(si specInfo, rl *refLexer, is *inputSet, values []string, only int, cl *collector, st *lexerStats) {
	bytesMode := si.mask&optScanBytes != 0
	mi := 0
	if bytesMode {
		mi = 1
	}
	reported := map[string]bool{}
	var buf []byte
	for i, w := range is.words {
		if only >= 0 && i != only {
			continue
		}
		got := values[i]
		if only >= 0 {
			got = values[0]
		}
		toks, flags := rl.tokenize(w, is.syms[mi][i])
		if flags&fTie != 0 {
			// two different rules of the top priority match the same text although the compiler
			// accepted the grammar: either C09's "identical rules" check or the model is wrong
			if !reported["tie"] {
				reported["tie"] = true
				cl.report(finding{key: "accepted-grammar:identical-rules", cost: si.g.nodes(),
					what: fmt.Sprintf("two rules of the top priority match the same prefix of %q with {%s}; grammar %s", w, optString(si.mask), si.g.summary()),
					c:    rcase{GID: si.gid, Family: si.g.Family, Mask: si.mask, Options: optString(si.mask), Input: hex.EncodeToString([]byte(w)), Text: fmt.Sprintf("%q", w), TM: si.tm}})
			}
			st.skipped++
			continue
		}
		if flags&fOutOfDomain != 0 {
			st.skipped++
			continue
		}
		st.evals++
		for f, name := range flagNames {
			if flags&(1<<uint(f)) != 0 {
				st.outcomes[name]++
			}
		}
		buf = rl.format(buf[:0], w, toks, si.mask)
		want := string(buf)
		for _, t := range toks {
			st.kinds[t.sym] = true
		}
		if got == want {
			continue
		}
		key, what := rl.classify(w, toks, want, got, si.mask, flags)
		if reported[key] {
			continue
		}
		reported[key] = true
		cost := len(si.g.Rules)*1000 + si.g.nodes()*50 + len(w)*8 + si.mask%7
		cl.report(finding{key: key, cost: cost,
			what: fmt.Sprintf("%s on %q with {%s}: %s; grammar %s", key, w, optString(si.mask), what, si.g.summary()),
			c: rcase{GID: si.gid, Family: si.g.Family, Mask: si.mask, Options: optString(si.mask), Input: hex.EncodeToString([]byte(w)),
				Text: fmt.Sprintf("%q", w), TM: si.tm, Want: want, Got: got}})
	}
}

// ---------------------------------------------------------------------------------------------
// run

const batchSize = 78

func run(c *core.Ctx) {
	maxLen := 5
	if c.Quick() {
		maxLen = 4
	}
	grams := buildGrammars()
	main := newInputSet(alphabet, maxLen)
	// carriage returns are not line ends: a second, small input set for every lexer
	crSet := newInputSet([]string{"a", "\r", "\n", " "}, 3)
	passes := 32
	if c.Quick() {
		passes = 1
	}
	c.Rule(fmt.Sprintf("lexer-only grammars: %d rule sets = stride samples of every (number of rules<=4, total AST nodes) level of the rxref enumeration (patterns of <=4 nodes over a b A [ab] . {eoi} {p} {q} {r} é [\\x80-\\xff] space newline) under 7 rotating decorations (plain, a rule marked (space), extra low-priority space rule, two rules sharing a token, explicit invalid_token rule, two start conditions switched by lexer actions, (class) rule specialising the constant rules) + hand-written families (class/keywords, space/invalid, start conditions, large symbol maps, priorities, backtracking); pass p builds grammar i under option subset (i+p) mod 32 of {tokenLine,tokenColumn,scanBytes,nonBacktracking,caseInsensitive} (quick: pass 0, thorough: passes 0..31); every built lexer runs on every input of length <=%d over {a,b,A,space,\\n,é,😀,\\xff} (%d texts), on every word of <=3 letters over {a,\\r,\\n,space} (large-map grammars also on words of <=2 letters over the class boundaries above U+00FF). One evaluation = one (generated lexer, input) pair whose complete stream (symbol, offsets, line, column, end-of-input three times) is compared with the reference. non-trivial = distinct generated lexer whose streams show >=3 different token kinds including invalid_token (end-of-input counts as a kind)", len(grams), maxLen, len(main.words)))
	c.Assume("reference conventions where the statement is silent (all follow the implementation): malformed UTF-8 byte = U+FFFD of width 1 in rune mode; an invalid token covers the longest prefix that some active rule could still extend, or exactly one character (rune / byte) when that prefix is empty; {eoi} is a zero-width pseudo symbol after the text; a byte-mode literal above 0x7f stands for its UTF-8 bytes; rules with the same token, attributes and action are one action (no conflict between them); Go's unicode tables define \\p{L} and case folding")
	c.Assume("out of domain (skipped and counted): rules that can match at the end of the input without consuming text ({eoi} first) and {eoi} under an unbounded repetition (the generated lexer would return empty tokens / spin forever; the statement does not say what such rules mean)")
	c.Set("grammars", len(grams))
	c.Set("input_texts", len(main.words))
	c.Set("max_input_len", maxLen)
	fam := map[string]int{}
	for _, g := range grams {
		fam[g.Family]++
	}
	c.Set("grammars_by_family", fam)

	cl := &collector{best: map[string]*finding{}, cnt: map[string]int{}}
	defer cl.flush(c)

	type work struct {
		gid, mask int
	}
	var todo []work
	for p := 0; p < passes; p++ {
		for i := range grams {
			todo = append(todo, work{i, (i + p) % 32})
		}
	}
	builtBySubset := make([]int, 32)
	triedBySubset := make([]int, 32)
	builtByFamily := map[string]int{}
	featureBuilt := map[string]int{}
	otherErrs := map[string]int{}
	nontrivialSeen := map[string]bool{}
	var smu sync.Mutex
	lexers := 0
	// go build dominates the cost (two packages per lexer). Quick starts all its batches at once
	// (the first wave is never skipped: on a loaded machine the soft budget can be gone before
	// the first build ends); thorough keeps three in flight and stops launching near the deadline.
	concurrentBatches := 3
	if c.Quick() {
		concurrentBatches = 8 // more than the quick tier has
	}
	type batch struct{ lo, hi int }
	var batches []batch
	for lo := 0; lo < len(todo); lo += batchSize {
		batches = append(batches, batch{lo, min(lo+batchSize, len(todo))})
	}
	var skippedBatches int
	var maxBatch time.Duration
	core.ParallelFor(len(batches), concurrentBatches, func(bi int) {
		// Do not start a batch that is unlikely to finish inside the soft budget (a batch costs
		// about as much as the slowest one so far).
		smu.Lock()
		late := bi >= concurrentBatches && (c.Expired() || time.Now().Add(maxBatch*11/10).After(c.Deadline))
		if late {
			skippedBatches++
		}
		smu.Unlock()
		if late {
			return
		}
		t0 := time.Now()
		defer func() {
			smu.Lock()
			if d := time.Since(t0); d > maxBatch {
				maxBatch = d
			}
			smu.Unlock()
		}()
		b := batches[bi]
		var specs []genharness.Spec
		var infos []specInfo
		var sets [][]*inputSet
		for k := b.lo; k < b.hi; k++ {
			w := todo[k]
			g := grams[w.gid]
			name := fmt.Sprintf("g%05d", k)
			tm := g.toTM(name, w.mask)
			iss := []*inputSet{main, crSet}
			if g.Extra != nil {
				iss = append(iss, newInputSet(g.Extra.Letters, g.Extra.MaxLen))
			}
			var cases []genharness.Case
			for _, is := range iss {
				cases = append(cases, genharness.Case{Mode: "bulk", Text: is.caseText()})
			}
			specs = append(specs, genharness.Spec{Name: name, TM: tm, Cases: cases, Driver: driver})
			infos = append(infos, specInfo{gid: w.gid, g: g, mask: w.mask, tm: tm})
			sets = append(sets, iss)
		}
		outs, err := genharness.RunBatch(specs, genharness.BatchOpts{})
		if err != nil {
			cl.report(finding{key: "harness:run-batch", what: err.Error()})
			return
		}
		tRun := time.Since(t0)
		defer func() {
			if os.Getenv("C11_TIMING") != "" {
				fmt.Fprintf(os.Stderr, "batch %d/%d: generate+build+run %.1fs, compare %.1fs (t=%.0fs)\n", bi+1, len(batches), tRun.Seconds(), (time.Since(t0) - tRun).Seconds(), time.Since(c.Start).Seconds())
			}
		}()
		core.ParallelFor(len(outs), 8, func(oi int) {
			out, si := outs[oi], infos[oi]
			g := si.g
			smu.Lock()
			triedBySubset[si.mask]++
			smu.Unlock()
			rc := rcase{GID: si.gid, Family: g.Family, Mask: si.mask, Options: optString(si.mask), TM: si.tm}
			if out.GenPanic != "" {
				cl.report(finding{key: "generate:panic:" + core.PanicSite(fmt.Errorf("%s", out.GenPanic)), what: out.GenPanic + " :: " + g.summary(), c: rc, cost: g.nodes()})
				return
			}
			if out.GenErr != "" {
				cls := classifyGenErr(out.GenErr)
				c.Outcome("grammar:rejected:"+cls, 1)
				if cls == "other" {
					smu.Lock()
					if len(otherErrs) < 12 {
						otherErrs[out.GenErr]++
					}
					smu.Unlock()
				}
				return
			}
			if out.BuildErr != "" {
				cl.report(finding{key: "generated-code-does-not-build", what: out.BuildErr + " :: " + g.summary(), c: rc, cost: g.nodes()})
				return
			}
			rl, rerr := newRefLexer(g, si.mask)
			if rerr == errNullable {
				// lex.Compile rejects every rule that matches the empty text (C09); a grammar that
				// still compiles has lost the rule on the way (class rules are compiled separately)
				cl.report(finding{key: "accepted-grammar:rule-matches-empty-text", cost: g.nodes(), c: rc,
					what: fmt.Sprintf("a rule matches the empty text but the grammar compiles with {%s}; grammar %s", optString(si.mask), g.summary())})
				return
			}
			if rerr == errClassTie {
				cl.report(finding{key: "accepted-grammar:identical-rules", cost: g.nodes(), c: rc,
					what: fmt.Sprintf("two (class) rules of the same priority match the same text but the grammar compiles with {%s}; grammar %s", optString(si.mask), g.summary())})
				return
			}
			if rerr != nil {
				c.Outcome("grammar:excluded:"+rerr.Error(), 1)
				return
			}
			if msg := rl.checkSymbols(out.Grammar); msg != "" {
				cl.report(finding{key: "harness:token-numbering", what: msg + " :: " + g.summary(), c: rc})
				return
			}
			st := &lexerStats{outcomes: map[string]int64{}, kinds: map[int]bool{}}
			for ci, is := range sets[oi] {
				res := out.Results[ci]
				if res.Panic != "" || res.Hang || len(res.Values) != len(is.words) {
					key := "lexer:crash"
					if res.Hang {
						key = "lexer:hang"
					}
					what := fmt.Sprintf("bulk run failed: panic=%q hang=%v values=%d/%d", res.Panic, res.Hang, len(res.Values), len(is.words))
					rc2 := rc
					if in, ok := findFailingInput(si, is); ok {
						rc2.Input, rc2.Text = hex.EncodeToString([]byte(in)), fmt.Sprintf("%q", in)
						what += fmt.Sprintf("; first failing input %q", in)
					}
					cl.report(finding{key: key, what: what + " :: " + g.summary(), c: rc2, cost: g.nodes()})
					return
				}
				evalLexer(si, rl, is, res.Values, -1, cl, st)
			}
			c.Eval(st.evals)
			c.Add("pairs_skipped_out_of_domain", st.skipped)
			for k, v := range st.outcomes {
				c.Outcome(k, v)
			}
			c.Outcome("grammar:built", 1)
			id := fmt.Sprintf("%d/%d", si.gid, si.mask)
			smu.Lock()
			lexers++
			builtBySubset[si.mask]++
			builtByFamily[g.Family]++
			for _, f := range g.features() {
				featureBuilt[f]++
				for bit, on := range optNames {
					if si.mask&(1<<uint(bit)) != 0 {
						featureBuilt[f+"+"+on]++
					}
				}
			}
			if st.kinds[1] && len(st.kinds) >= 3 && !nontrivialSeen[id] {
				nontrivialSeen[id] = true
				c.Nontrivial(1)
			}
			smu.Unlock()
			if c.SampleCount() < 8 && (si.gid%41 == 3) {
				c.Sample(map[string]any{"options": optString(si.mask), "grammar": g.summary()})
			}
		})
	})
	if skippedBatches > 0 {
		c.Capped(fmt.Sprintf("soft budget expired: %d of %d batches (%d (grammar, option subset) pairs each) not run; passes are ordered so that every grammar is covered before any grammar gets its next subset", skippedBatches, len(batches), batchSize))
	}
	c.Set("generated_lexers_built", lexers)
	c.Set("tried_by_option_subset", triedBySubset)
	c.Set("built_by_option_subset", builtBySubset)
	c.Set("built_by_family", builtByFamily)
	c.Set("built_by_feature_and_option", featureBuilt)
	if len(otherErrs) > 0 {
		c.Set("rejected_other_messages", otherErrs)
	}
}

// findFailingInput re-runs one lexer input by input (short watchdog) after a bulk failure.
func findFailingInput(si specInfo, is *inputSet) (string, bool) {
	var cases []genharness.Case
	words := is.words
	if len(words) > 600 {
		words = words[:600]
	}
	for _, w := range words {
		cases = append(cases, genharness.Case{Mode: "one", Text: hex.EncodeToString([]byte(w))})
	}
	name := "g00000"
	outs, err := genharness.RunBatch([]genharness.Spec{{Name: name, TM: si.g.toTM(name, si.mask), Cases: cases, Driver: driver}}, genharness.BatchOpts{CaseTimeout: 2e9})
	if err != nil || len(outs) == 0 || outs[0].Results == nil {
		return "", false
	}
	for i, r := range outs[0].Results {
		if r.Hang || r.Panic != "" || len(r.Values) != 1 {
			return words[i], true
		}
	}
	return "", false
}

// ---------------------------------------------------------------------------------------------
// replay / dump

func replay(c *core.Ctx, raw json.RawMessage) error {
	var rc rcase
	if err := json.Unmarshal(raw, &rc); err != nil {
		return err
	}
	grams := buildGrammars()
	if rc.GID < 0 || rc.GID >= len(grams) {
		return fmt.Errorf("grammar %d is not in the enumeration any more", rc.GID)
	}
	g := grams[rc.GID]
	name := "g00000"
	if m := strings.Index(rc.TM, "scratch/"); m >= 0 && len(rc.TM) >= m+14 {
		name = rc.TM[m+8 : m+14]
	}
	tm := g.toTM(name, rc.Mask)
	if rc.TM != "" && tm != rc.TM {
		return fmt.Errorf("grammar %d of the enumeration differs from the recorded text (enumeration changed); recorded:\n%s", rc.GID, rc.TM)
	}
	in, err := hex.DecodeString(rc.Input)
	if err != nil {
		return err
	}
	return runOne(g, rc.GID, rc.Mask, name, string(in))
}

func runOne(g *lexGrammar, gid, mask int, name, input string) error {
	tm := g.toTM(name, mask)
	outs, err := genharness.RunBatch([]genharness.Spec{{Name: name, TM: tm, Driver: driver,
		Cases: []genharness.Case{{Mode: "one", Text: hex.EncodeToString([]byte(input))}}}}, genharness.BatchOpts{CaseTimeout: 5e9})
	if err != nil {
		return err
	}
	out := outs[0]
	switch {
	case out.GenPanic != "":
		return fmt.Errorf("generate panics: %s", out.GenPanic)
	case out.GenErr != "":
		fmt.Println("grammar is rejected now:", out.GenErr)
		return nil
	case out.BuildErr != "":
		return fmt.Errorf("generated code does not build: %s", out.BuildErr)
	}
	res := out.Results[0]
	if res.Hang || res.Panic != "" || len(res.Values) != 1 {
		return fmt.Errorf("lexer run failed: hang=%v panic=%q", res.Hang, res.Panic)
	}
	rl, rerr := newRefLexer(g, mask)
	if rerr == errNullable || rerr == errClassTie {
		return fmt.Errorf("the grammar compiles although the compiler has to reject it (%v): %s", rerr, g.summary())
	}
	if rerr != nil {
		fmt.Println("grammar is out of domain:", rerr)
		return nil
	}
	cl := &collector{best: map[string]*finding{}, cnt: map[string]int{}}
	st := &lexerStats{outcomes: map[string]int64{}, kinds: map[int]bool{}}
	is := &inputSet{words: []string{input}}
	is.syms[0] = [][]rxref.Sym{rxref.Decode(input, false)}
	is.syms[1] = [][]rxref.Sym{rxref.Decode(input, true)}
	evalLexer(specInfo{gid: gid, g: g, mask: mask, tm: tm}, rl, is, res.Values, 0, cl, st)
	for _, f := range cl.best {
		return fmt.Errorf("%s (want %q got %q)", f.what, f.c.Want, f.c.Got)
	}
	return nil
}

// dump: `c11 dump` lists the grammars; `c11 dump <gid> <mask> [input…]` prints the .tm text and runs inputs.
func dump(args []string) {
	grams := buildGrammars()
	if len(args) == 0 {
		for i, g := range grams {
			fmt.Printf("%4d plausible=%-5v %s\n", i, g.plausible(), g.summary())
		}
		return
	}
	gid, _ := strconv.Atoi(args[0])
	mask := 1
	if len(args) > 1 {
		mask, _ = strconv.Atoi(args[1])
	}
	g := grams[gid]
	fmt.Println(g.toTM("g00000", mask))
	for _, in := range args[2:] {
		if u, err := strconv.Unquote(`"` + in + `"`); err == nil {
			in = u
		}
		rl, rerr := newRefLexer(g, mask)
		if rerr != nil {
			fmt.Println("out of domain:", rerr)
			return
		}
		toks, flags := rl.tokenize(in, rxref.Decode(in, mask&optScanBytes != 0))
		fmt.Printf("%q reference: %s (flags %b)\n", in, rl.format(nil, in, toks, mask), flags)
		fmt.Println("  check:", runOne(g, gid, mask, "g00000", in))
	}
}
