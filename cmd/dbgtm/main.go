// dbgtm compiles a .tm file and prints parser inputs, states, tables summary.
package main

import (
	"context"
	"fmt"
	"os"

	"github.com/inspirer/textmapper/compiler"
)

func main() {
	data, _ := os.ReadFile(os.Args[1])
	g, err := compiler.Compile(context.Background(), os.Args[1], string(data), compiler.Params{})
	fmt.Println("err:", err)
	if g == nil || g.Parser == nil {
		return
	}
	for i, in := range g.Parser.Inputs {
		fmt.Printf("input %d: %s noeoi=%v synthetic=%v\n", i, g.Parser.Nonterms[in.Nonterm].Name, in.NoEoi, in.Synthetic)
	}
	for _, st := range g.Sets {
		var names []string
		for _, t := range st.Terminals {
			names = append(names, g.Syms[t].Name)
		}
		fmt.Printf("set %s = %v (%s)\n", st.Name, names, st.Expr)
	}
	for i, r := range g.Parser.Rules {
		fmt.Printf("rule %d: %s\n", i, g.RuleString(*r))
	}
	t := g.Parser.Tables
	if t != nil {
		fmt.Println("states", t.NumStates, "final", t.FinalStates, "action", t.Action, "lalr", t.Lalr)
		fmt.Println("goto", t.Goto, "fromto", t.FromTo)
		fmt.Printf("lookaheads %+v\n", t.Lookaheads)
	}
}
