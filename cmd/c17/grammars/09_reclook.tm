# feature: recursive lookaheads (a lookahead nonterminal that itself needs a lookahead)
language @NAME@(go);

package = "scratch/@NAME@"
@OPTIONS@

:: lexer

WhiteSpace: /[ \t\r\n]+/ (space)
ta: /a/
tb: /b/
tc: /c/
td: /d/

:: parser

%input S;

S :
    (?= Outer) ta Tail
  | (?= !Outer) ta tc
;

Tail :
    (?= Inner) tb td
  | (?= !Inner) tb tc
;

Outer : ta Tail ;
Inner : tb td ;
