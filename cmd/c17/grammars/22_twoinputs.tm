# feature: two inputs (one typed, one no-eoi)
language @NAME@(go);

package = "scratch/@NAME@"
@OPTIONS@

:: lexer

WhiteSpace: /[ \t\r\n]+/ (space)
ta: /a/
tb: /b/
num {int}: /[0-9]+/ { $$ = len(l.Text()) }

:: parser

%input Stmt, Expr no-eoi;

Stmt : ta Expr tb ;
Expr {int} : num { $$ = $num } | Expr ta num { $$ = $Expr + $num } ;
