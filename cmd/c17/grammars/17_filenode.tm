# feature: fileNode option (node type wrapping the whole input in the AST)
#! pin eventBased=true
language @NAME@(go);

package = "scratch/@NAME@"
fileNode = "File"
@OPTIONS@

:: lexer

WhiteSpace: /[ \t\r\n]+/ (space)
id: /[a-z]+/
';': /;/

:: parser

%input File;

File -> File : decls+=Decl+ ;
Decl -> Decl : name=Name ';' ;
Name -> Name : id ;
