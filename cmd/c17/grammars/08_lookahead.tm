# feature: runtime lookaheads (?= X) and negated (?= !X)
language @NAME@(go);

package = "scratch/@NAME@"
@OPTIONS@

:: lexer

WhiteSpace: /[ \t\r\n]+/ (space)
ta: /a/
tb: /b/
tc: /c/

:: parser

%input S;

S :
    (?= StartsAB) ta tb tc
  | (?= !StartsAB) ta tc
;

StartsAB : ta tb ;
