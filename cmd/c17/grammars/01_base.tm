# feature: plain LALR(1) grammar, nothing else
language @NAME@(go);

package = "scratch/@NAME@"
@OPTIONS@

:: lexer

WhiteSpace: /[ \t\r\n]+/ (space)
ta: /a/
tb: /b/

:: parser

%input S;

S : ta tb | S ta ;
