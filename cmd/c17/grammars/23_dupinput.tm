# feature: the same nonterminal listed twice in %input (with and without eoi)
language @NAME@(go);

package = "scratch/@NAME@"
@OPTIONS@

:: lexer

ta: /a/
tb: /b/

:: parser

%input A, A no-eoi;

A : ta | A tb ;
