# feature: templated nonterminals with flag parameters and predicates
language @NAME@(go);

package = "scratch/@NAME@"
@OPTIONS@

:: lexer

WhiteSpace: /[ \t\r\n]+/ (space)
ta: /a/
tb: /b/
tc: /c/
'(': /\(/
')': /\)/

:: parser

%input S;

%flag WithB;
%flag NoC = false;

S : Item<+WithB> | '(' Item<~WithB> ')' | tc List<+NoC> ;

Item<WithB> :
    ta
  | [WithB] tb
  | [!WithB] tc
;

List<NoC> :
    ta
  | [!NoC] tc
  | List ta
;
