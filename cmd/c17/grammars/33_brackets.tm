# feature: %brackets lexer directive
language @NAME@(go);

package = "scratch/@NAME@"
@OPTIONS@

:: lexer

WhiteSpace: /[ \t\r\n]+/ (space)
'(': /\(/
')': /\)/
'[': /\[/
']': /\]/
ta: /a/

%brackets '(' ')';
%brackets '[' ']';

:: parser

%input S;

S : ta | '(' S ')' | '[' S ']' ;
