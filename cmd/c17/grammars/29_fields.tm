# feature: named fields (=, +=) for eventFields / typed AST, incl. names that collide with Go/Textmapper identifiers
#! pin eventBased=true
language @NAME@(go);

package = "scratch/@NAME@"
@OPTIONS@

:: lexer

WhiteSpace: /[ \t\r\n]+/ (space)
id: /[a-z]+/
num: /[0-9]+/
'=': /=/
',': /,/
';': /;/
'[': /\[/
']': /\]/

:: parser

%input Unit;

%inject id -> Ident;

%interface Value;

Unit -> Unit : decls+=Decl+ ;

Decl -> Decl :
    type=TypeName '=' value=Value ';'
  | token=Name node=Num? ';'
;

Name -> Name : id ;
TypeName -> TypeName : '[' id ']' ;
Num -> Num : num ;

Value -> Value :
    Num                                         -> NumValue
  | Name                                        -> NameValue
  | '[' (elems+=Value separator ',')* ']'       -> ListValue
  | '=' start=Num ',' end=TypeName pos=Name  -> RangeValue
;
