# feature: named fields (=, +=) for eventFields / typed AST, incl. names that collide with Go/Textmapper identifiers
#! pin eventBased=true
language @NAME@(go);

package = "scratch/@NAME@"
@OPTIONS@

:: lexer

WhiteSpace: /[ \t\r\n]+/ (space)
id: /[a-z]+/
num: /[0-9]+/
'=': /=/
',': /,/
';': /;/
'[': /\[/
']': /\]/

:: parser

%input Unit;

%inject id -> Ident;
%inject num -> Num;

%interface Value;

Unit -> Unit : decls+=Decl+ ;

Decl -> Decl :
    type=Name '=' value=Value ';'
  | token=Name node=Name? ';'
;

Name -> Name : id ;

Value -> Value :
    num                                         -> NumValue
  | Name                                        -> NameValue
  | '[' (elems+=Value separator ',')* ']'       -> ListValue
  | start=num ',' end=num pos=Name offset=Name  -> RangeValue
;
