# feature: (class) lexer rule with keyword specialisations
language @NAME@(go);

package = "scratch/@NAME@"
@OPTIONS@

:: lexer

WhiteSpace: /[ \t\r\n]+/ (space)
id: /[a-zA-Z_][a-zA-Z_0-9]*/ (class)
'if': /if/
'else': /else/
'while': /while/
';': /;/

:: parser

%input Prog;

Prog : Stmt | Prog Stmt ;
Stmt : id ';' | 'if' id Stmt 'else' Stmt | 'while' id Stmt ;
