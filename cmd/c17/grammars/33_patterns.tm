# feature: named lexer patterns, rule priorities, {eoi} in patterns, invalid_token with a pattern
language @NAME@(go);

package = "scratch/@NAME@"
@OPTIONS@

:: lexer

hex = /[0-9a-fA-F]/
esc = /u{hex}{4}/
idChar = /[a-zA-Z]|\\{esc}/

WhiteSpace: /[ \t\r\n]+/ (space)
SharpAtID: /Z{idChar}+/ (class)
'Zfoo': /Zfoo/
invalid_token: /Z{idChar}*\\(u{hex}{0,3})?/
lastInt: /[0-9]+(\n|{eoi})/
num: /[0-9]+/
anyHigh: /[a-y]+/ 1
anyLow: /[a-y]+x?/ -1

:: parser

%input S;

S : Item | S Item ;
Item : SharpAtID | 'Zfoo' | lastInt | num | anyHigh | anyLow ;
