# feature: mid-rule semantic action (extracted into a nullable nonterminal)
language @NAME@(go);

package = "scratch/@NAME@"
@OPTIONS@

:: lexer

ta: /a/
tb: /b/

:: parser

%input S;

S : ta { println("mid") } tb { println("end") } ;
