# feature: a grammar without a parser section
language @NAME@(go);

package = "scratch/@NAME@"
@OPTIONS@

:: lexer

WhiteSpace: /[ \t\r\n]+/ (space)
id: /[a-z]+/ (class)
'if': /if/
num {int}: /[0-9]+/ { $$ = len(l.Text()) }
invalid_token:
