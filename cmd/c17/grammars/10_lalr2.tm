# feature: lalr(2) grammar with a reduce/reduce conflict resolved by the second lookahead token
language @NAME@(go);

package = "scratch/@NAME@"
@OPTIONS@

:: lexer

ta: /a/
tb: /b/
tc: /c/

:: parser lalr(2)

%input S;

S : A ta tb | B ta tc ;
A : ta ;
B : ta ;
