# feature: typed terminals referenced by value in actions while no nonterminal has a type
#! run 12 => n 2
#! run 1+345 => n 1 | p 3 3
#! pin scanBytes=false
#! pin caseInsensitive=false
#! pin nonBacktracking=false
#! pin tokenColumn=false
language @NAME@(go);

package = "scratch/@NAME@"
@OPTIONS@

:: lexer

WhiteSpace: /[ \t\r\n]+/ (space)
num {int}: /[0-9]+/ { $$ = len(l.Text()) }
'+': /\+/

:: parser

%input Sum;

Sum :
    num                  { "scratch/rt".Record("n %d", $num) }
  | Sum '+' num[r]       { "scratch/rt".Record("p %d %d", $r, $2) }
;
