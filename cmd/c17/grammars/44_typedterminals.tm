# feature: typed terminals referenced by value in actions while no nonterminal has a type
language @NAME@(go);

package = "scratch/@NAME@"
@OPTIONS@

:: lexer

WhiteSpace: /[ \t\r\n]+/ (space)
num {int}: /[0-9]+/ { $$ = len(l.Text()) }
'+': /\+/

:: parser

%input Sum;

Sum :
    num                  { println($num) }
  | Sum '+' num[r]       { println($r, $2) }
;
