# feature: %generate sets whose names are Go keywords, predeclared identifiers or names used by the generated code
#! pin scanBytes=false
#! pin caseInsensitive=false
#! pin nonBacktracking=false
#! pin tokenColumn=false
language @NAME@(go);

package = "scratch/@NAME@"
@OPTIONS@

:: lexer

WhiteSpace: /[ \t\r\n]+/ (space)
id: /[a-z]+/
'=': /=/

:: parser

%input File;

%generate type = set(first Item);
%generate int32 = set(follow id);
%generate len = set(last Item);

File : Item+ ;
Item : id '=' id ;
