# feature: non-ASCII patterns and unicode classes in the lexer
language @NAME@(go);

package = "scratch/@NAME@"
@OPTIONS@

:: lexer

WhiteSpace: /[ \t\r\n ]+/ (space)
word: /[\p{L}_][\p{L}\p{Nd}_]*/ (class)
greek: /[α-ω]+/ 1
'→': /→/
'é': /é/

:: parser

%input S;

S : word | S '→' word | S 'é' | S greek ;
