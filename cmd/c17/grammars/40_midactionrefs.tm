# feature: mid-rule actions that refer to one typed symbol (typed terminal / typed nonterminal) by
# value and by location in every order: value-then-location, location-then-value, value only,
# location only, twice value. Every action records what it observed; the check runs the inputs below.
#! run a 12 ; => tvl 12 2 4
#! run b 345 ; => tlv 2 5 345
#! run c 7 ; => tv 7
#! run d 89 ; => tl 2 4
#! run e 6 ; => tvv 6 7
#! run f 3+45 ; => nvl 48 2 6
#! run g 10+2 ; => nlv 2 6 12
#! run h 1+1 ; => nv 2
#! run i 22+3 ; => nl 2 6
#! run j 5+6 ; => nvv 11 22
#! run k 40 ; => tsv 2 40 4 | end 40
#! pin scanBytes=false
#! pin caseInsensitive=false
#! pin nonBacktracking=false
#! pin tokenColumn=false
language @NAME@(go);

package = "scratch/@NAME@"
@OPTIONS@

:: lexer

WhiteSpace: /[ \t\r\n]+/ (space)
num {int}: /[0-9]+/ { $$, _ = "strconv".Atoi(l.Text()) }
'+': /\+/
';': /;/
'a': /a/
'b': /b/
'c': /c/
'd': /d/
'e': /e/
'f': /f/
'g': /g/
'h': /h/
'i': /i/
'j': /j/
'k': /k/

:: parser

%input Stmt;

Stmt :
    'a' num[x]   { "scratch/rt".Record("tvl %d %d %d", $x, ${x.offset}, ${x.endoffset}) } ';'
  | 'b' num[x]   { "scratch/rt".Record("tlv %d %d %d", ${x.offset}, ${x.endoffset}, $x) } ';'
  | 'c' num[x]   { "scratch/rt".Record("tv %d", $x) } ';'
  | 'd' num[x]   { "scratch/rt".Record("tl %d %d", ${x.offset}, ${x.endoffset}) } ';'
  | 'e' num[x]   { "scratch/rt".Record("tvv %d %d", $x, $x+1) } ';'
  | 'f' Sum[x]   { "scratch/rt".Record("nvl %d %d %d", $x, ${x.offset}, ${x.endoffset}) } ';'
  | 'g' Sum[x]   { "scratch/rt".Record("nlv %d %d %d", ${self[1].offset}, ${x.endoffset}, $x) } ';'
  | 'h' Sum[x]   { "scratch/rt".Record("nv %d", $x) } ';'
  | 'i' Sum[x]   { "scratch/rt".Record("nl %d %d", ${x.offset}, ${x.endoffset}) } ';'
  | 'j' Sum[x]   { "scratch/rt".Record("nvv %d %d", $x, $x+$x) } ';'
  | 'k' num[x]   { "scratch/rt".Record("tsv %d %d %d", ${x.sym}.offset, $x, ${x.sym}.endoffset) } ';'
                 { "scratch/rt".Record("end %d", $x) }
;

Sum {int} :
    num[l] '+' num[r]   { $$ = $l + $r }
;
