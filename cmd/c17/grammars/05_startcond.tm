# feature: lexer start conditions (%x exclusive, %s inclusive), state switching in actions
language @NAME@(go);

package = "scratch/@NAME@"
@OPTIONS@

:: lexer

%s initial, afterA;
%x inComment;

WhiteSpace: /[ \t\r\n]+/ (space)
ta: /a/  { l.State = StateAfterA }
<afterA> tb: /b/ { l.State = StateInitial }
tc: /c/
commentStart: /\/\*/ (space) { l.State = StateInComment }

<inComment> {
  commentEnd: /\*\// (space) { l.State = StateInitial }
  commentChar: /[^*]+|\*/ (space)
}

:: parser

%input S;

S : ta tb | ta tc | S tc ;
