# feature: typed values, actions and reported nodes together (actions and events in one rule)
#! pin eventBased=true
language @NAME@(go);

package = "scratch/@NAME@"
@OPTIONS@

:: lexer

WhiteSpace: /[ \t\r\n]+/ (space)
num {int}: /[0-9]+/ { $$ = len(l.Text()) }
'+': /\+/
error:
invalid_token:

:: parser

%input Sum;

%inject invalid_token -> InvalidToken;

Sum {int} -> Sum :
    num                         { $$ = $num }           -> Num
  | Sum '+' { println("mid") } num  { $$ = $Sum + $num }    -> Plus
  | error                                               -> Broken
;
