# feature: runtime lookaheads over nonterminals whose names are not Go identifiers (foo-bar, with a template suffix)
#! pin scanBytes=false
#! pin caseInsensitive=false
#! pin nonBacktracking=false
#! pin tokenColumn=false
language @NAME@(go);

package = "scratch/@NAME@"
@OPTIONS@

:: lexer

WhiteSpace: /[ \t\r\n]+/ (space)
ta: /a/
tb: /b/
tc: /c/

:: parser

%input start-sym;

start-sym :
    (?= foo-bar) ta tb
  | (?= !foo-bar) ta tc
;

foo-bar : ta tb ;
