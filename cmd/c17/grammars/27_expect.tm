# feature: %expect (dangling else)
language @NAME@(go);

package = "scratch/@NAME@"
@OPTIONS@

:: lexer

WhiteSpace: /[ \t\r\n]+/ (space)
'if': /if/
'else': /else/
ta: /a/

:: parser

%input Stmt;

%expect 1;

Stmt : ta | 'if' ta Stmt | 'if' ta Stmt 'else' Stmt ;
