# feature: constant token patterns that contain a newline, a tab, a quote or a backslash (token.go lists the patterns)
#! pin scanBytes=false
#! pin caseInsensitive=false
#! pin nonBacktracking=false
#! pin tokenColumn=false
language @NAME@(go);

package = "scratch/@NAME@"
@OPTIONS@

:: lexer

WhiteSpace: /[ \t\r]+/ (space)
nlparen: /\n\(/
tabx: /\tx/
'"': /"/
backslash: /\\/
id: /[a-z]+/

:: parser

%input File;

File : id+ nlparen | tabx '"' backslash ;
