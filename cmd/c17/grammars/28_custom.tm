# feature: inline templates (%% section), quoted imports in actions and templates
language @NAME@(go);

package = "scratch/@NAME@"
@OPTIONS@

:: lexer

WhiteSpace: /[ \t\r\n]+/ (space)
num {int}: /[0-9]+/ { $$ = mustParseInt(l.Text()) }
id {string}: /[a-z]+/ { $$ = "strings".ToUpper(l.Text()) }
'+': /\+/

:: parser

%input Sum;

Sum {int} :
    num                { $$ = $num }
  | id                 { $$ = len($id) + "unicode/utf8".RuneCountInString($id) }
  | Sum '+' num        { $$ = $Sum + $num; _ = "encoding/json as enc_2".Valid }
;

%%

{{define "onAfterLexer"}}
func mustParseInt(s string) int {
	i, err := "strconv".Atoi(s)
	if err != nil {
		panic(`lexer internal error: ` + err.Error())
	}
	return i
}
{{end}}

{{define "onAfterParser"}}
func parserEnd() {}
{{end}}
