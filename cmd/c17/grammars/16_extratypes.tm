# feature: extraTypes option (plain and with interfaces)
#! pin eventBased=true
language @NAME@(go);

package = "scratch/@NAME@"
extraTypes = ["Extra1", "Extra2 -> Expr", "Extra3 -> Expr"]
@OPTIONS@

:: lexer

WhiteSpace: /[ \t\r\n]+/ (space)
num: /[0-9]+/
'+': /\+/

:: parser

%input Root;

%interface Expr;

Root -> Root : Expr ;
Expr -> Expr :
    num -> Num
  | left=Expr '+' num -> Plus
;
