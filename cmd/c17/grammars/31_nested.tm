# feature: actions over optional / nested symbols with aliases, ${x.offset}, first()/last()
language @NAME@(go);

package = "scratch/@NAME@"
@OPTIONS@

:: lexer

WhiteSpace: /[ \t\r\n]+/ (space)
num {int}: /[0-9]+/ { $$ = len(l.Text()) }
ta: /a/
tb: /b/

:: parser

%input S;

S {int} :
    ta num[first] (tb num[second])?
      { v := $first; if ${second.offset} >= 0 { v += ${second.endoffset} - ${second.offset} }; _ = ${first().offset} + ${last().endoffset}; $$ = v }
  | tb (ta | tb)[kw] num
      { $$ = $num + ${kw.offset} - ${left().offset} }
;
