# feature: %assert empty / nonempty over sets
language @NAME@(go);

package = "scratch/@NAME@"
@OPTIONS@

:: lexer

WhiteSpace: /[ \t\r\n]+/ (space)
ta: /a/
tb: /b/
tc: /c/

:: parser

%input S;

%assert empty set(first A & first B);
%assert nonempty set(follow A);

S : A tc | B tc ;
A : ta ;
B : tb ;
