# feature: quoted and odd symbol names
language @NAME@(go);

package = "scratch/@NAME@"
@OPTIONS@

:: lexer

WhiteSpace: /[ \t\r\n]+/ (space)
'+': /\+/
'%': /%/
'a-b': /a-b/
'\\': /\\/
"else": /else/
'::': /::/
'->': /->/
'(?=': /\(\?=/
'$': /\$/
'x1': /x1/
'_': /_/
'foo_': /foo_/
'Zfoo': /Zfoo/
'\'' (squote): /'/
dquote: /"/
'.5': /\.5/
'type': /type/
'func': /func/
kw-with-dash: /kw/
'T1': /T1/
'T2': /T2/

:: parser

%input start-symbol;

start-symbol : item-list ;
item-list : item | item-list item ;
item :
    '+' | '%' | 'a-b' | '\\' | "else" | '::' | '->' | '(?=' | '$' | 'x1' | '_' | 'foo_' | 'Zfoo'
  | '\'' | dquote | '.5' | 'type' | 'func' | kw-with-dash | type | func_ ;
type : 'T1' '+' ;
func_ : 'T2' '%' ;
