# feature: %interface categories with reported node types
#! pin eventBased=true
language @NAME@(go);

package = "scratch/@NAME@"
@OPTIONS@

:: lexer

WhiteSpace: /[ \t\r\n]+/ (space)
num: /[0-9]+/
id: /[a-z]+/
'+': /\+/

:: parser

%input Root;

%interface Expr, Leaf;

Root -> Root : Expr ;

Expr -> Expr :
    Leaf
  | left=Expr '+' right=Leaf   -> Plus
;

Leaf -> Leaf :
    num -> Num
  | id -> Ref
;
