# feature: inline and extend nonterminals, $( ... ) ignored parts
language @NAME@(go);

package = "scratch/@NAME@"
@OPTIONS@

:: lexer

WhiteSpace: /[ \t\r\n]+/ (space)
ta: /a/
tb: /b/
tc: /c/

:: parser

%input S;

S : Pair | S Pair ;
inline Pair : ta Tail | tb Tail ;
Tail : tc ;
extend Tail : tb tb ;
