# feature: set(...) expressions in rules (first, follow, complement, union)
language @NAME@(go);

package = "scratch/@NAME@"
@OPTIONS@

:: lexer

WhiteSpace: /[ \t\r\n]+/ (space)
ta: /a/
tb: /b/
tc: /c/
td: /d/
';': /;/

:: parser

%input S;

S : Stmt | S Stmt ;
Stmt : Head set(~(eoi | ';'))* ';' ;
Head : ta | tb set(first Head | tc) ;
