# feature: error recovery with the error token
language @NAME@(go);

package = "scratch/@NAME@"
@OPTIONS@

:: lexer

WhiteSpace: /[ \t\r\n]+/ (space)
ta: /a/
';': /;/
'{': /\{/
'}': /\}/
error:
invalid_token:

:: parser

%input Block;

Block : '{' Stmts '}' ;
Stmts : Stmt | Stmts Stmt ;
Stmt : ta ';' | error ';' | Block ;
