# feature: a runtime lookahead (?= P) whose nonterminal is also declared as a no-eoi input by the user
#! pin scanBytes=false
#! pin caseInsensitive=false
#! pin nonBacktracking=false
#! pin tokenColumn=false
language @NAME@(go);

package = "scratch/@NAME@"
@OPTIONS@

:: lexer

WhiteSpace: /[ \t\r\n]+/ (space)
ta: /a/
tb: /b/
tc: /c/

:: parser

%input S, P no-eoi;

S :
    (?= P) ta tb
  | (?= !P) ta tc
;

P : ta tb ;
