# feature: %inject of space and non-space tokens into the event stream
#! pin eventBased=true
language @NAME@(go);

package = "scratch/@NAME@"
@OPTIONS@

:: lexer

WhiteSpace: /[ \t\r\n]+/ (space)
comment: /#[^\n]*/ (space)
id: /[a-z]+/
';': /;/
invalid_token:

:: parser

%input S;

%inject comment -> Comment;
%inject id -> Ident;
%inject invalid_token -> InvalidToken;

S -> File : Stmt+ ;
Stmt -> Stmt : id ';' ;
