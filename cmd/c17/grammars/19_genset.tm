# feature: %generate named sets (first/follow/precede/last), exported as token sets
language @NAME@(go);

package = "scratch/@NAME@"
@OPTIONS@

:: lexer

WhiteSpace: /[ \t\r\n]+/ (space)
ta: /a/
tb: /b/
tc: /c/
td: /d/

:: parser

%input S;

%generate afterA = set(follow ta);
%generate firstT = set(first T);
%generate beforeD = set(precede td);
%generate lastT = set(last T);
%generate notAB = set(~(ta | tb));

S : ta T td | S tc ;
T : tb | tb tc ;
