# feature: precedence declarations and %prec
language @NAME@(go);

package = "scratch/@NAME@"
@OPTIONS@

:: lexer

WhiteSpace: /[ \t\r\n]+/ (space)
num: /[0-9]+/
'+': /\+/
'-': /-/
'*': /\*/
'^': /^/
'<': /</
unaryMinus:

:: parser

%input Expr;

%nonassoc '<';
%left '+' '-';
%left '*';
%right '^';
%nonassoc unaryMinus;

Expr :
    num
  | Expr '+' Expr
  | Expr '-' Expr
  | Expr '*' Expr
  | Expr '^' Expr
  | Expr '<' Expr
  | '-' Expr %prec unaryMinus
;
