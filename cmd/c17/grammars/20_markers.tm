# feature: state markers (.name), including .greedy
language @NAME@(go);

package = "scratch/@NAME@"
@OPTIONS@

:: lexer

WhiteSpace: /[ \t\r\n]+/ (space)
ta: /a/
tb: /b/
tc: /c/

:: parser

%input S;

S : ta .afterA tb | ta .afterA tc .done | Elems .afterList ;
Elems : Elem | Elems Elem ;
Elem : tb .greedy | tb tc ;
