# feature: reported ranges with node flags, nested arrows, "as" casts
#! pin eventBased=true
language @NAME@(go);

package = "scratch/@NAME@"
@OPTIONS@

:: lexer

WhiteSpace: /[ \t\r\n]+/ (space)
id: /[a-z]+/
num: /[0-9]+/
',': /,/
'(': /\(/
')': /\)/

:: parser

%input Call;

%inject id -> Name/InCall;

Call -> Call :
    id '(' (Arg separator ',')* ')'
  | id (num -> Lit/Bare, Const) -> Short/Bare
;

Arg -> Arg :
    num -> Lit/Const
  | id
  | ('(' Arg ')' -> Paren)
;

%%

{{define "onAfterParser"}}
// Node flags are supplied by the user of the generated code.
const (
	InCall NodeFlags = 1 << iota
	Bare
	Const
)
{{end}}
