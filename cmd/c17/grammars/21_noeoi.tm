# feature: a single no-eoi input
language @NAME@(go);

package = "scratch/@NAME@"
@OPTIONS@

:: lexer

WhiteSpace: /[ \t\r\n]+/ (space)
ta: /a/
tb: /b/

:: parser

%input S no-eoi;

S : ta tb | ta S tb ;
