# feature: state markers whose names are not Go identifiers (.my-marker) or are Go keywords (.type)
#! pin scanBytes=false
#! pin caseInsensitive=false
#! pin nonBacktracking=false
#! pin tokenColumn=false
language @NAME@(go);

package = "scratch/@NAME@"
@OPTIONS@

:: lexer

WhiteSpace: /[ \t\r\n]+/ (space)
id: /[a-z]+/
'=': /=/
';': /;/

:: parser

%input File;

File : Item+ ;
Item : id .my-marker '=' id | id .type ';' | '=' .multi id | '=' '=' .multi id ;
