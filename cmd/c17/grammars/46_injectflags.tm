# feature: %inject with node flags while no parser rule reports a flag (flags come from the lexer side only)
#! pin eventBased=true
#! pin scanBytes=false
#! pin caseInsensitive=false
#! pin nonBacktracking=false
#! pin tokenColumn=false
language @NAME@(go);

package = "scratch/@NAME@"
@OPTIONS@

:: lexer

WhiteSpace: /[ \t\r\n]+/ (space)
comment: /#[^\n]*/ (space)
id: /[a-z]+/

:: parser

%input File;

%inject comment -> Comment/Trivia;

File -> File : id+ ;

%%

{{define "onAfterParser"}}
// Node flags are supplied by the user of the generated code.
const Trivia NodeFlags = 1
{{end}}
