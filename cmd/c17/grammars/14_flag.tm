# feature: global %flag with default and %lookahead flag
language @NAME@(go);

package = "scratch/@NAME@"
@OPTIONS@

:: lexer

WhiteSpace: /[ \t\r\n]+/ (space)
ta: /a/
tb: /b/
tc: /c/

:: parser

%input S;

%flag Top = true;
%lookahead flag NoB = false;

S : Seq ;
Seq<Top> : Elem | Seq Elem ;
Elem<Top> :
    ta
  | [!NoB] tb
  | [Top] tc Elem<+NoB, ~Top>
;
