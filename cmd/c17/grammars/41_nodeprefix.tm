# feature: nodePrefix option (prefix of the generated node type constants), together with
# fileNode, extraTypes, categories, fields and injected tokens
#! pin eventBased=true
language @NAME@(go);

package = "scratch/@NAME@"
nodePrefix = "Nd"
fileNode = "File"
extraTypes = ["Extra1", "Extra2 -> Expr"]
@OPTIONS@

:: lexer

WhiteSpace: /[ \t\r\n]+/ (space)
comment: /#[^\n]*/ (space)
num: /[0-9]+/
id: /[a-z]+/
'+': /\+/
';': /;/

:: parser

%input File;

%interface Expr;

%inject comment -> Comment;

File -> File : decls+=Decl+ ;
Decl -> Decl : name=Name value=Expr ';' ;
Name -> Name : id ;
Expr -> Expr :
    num -> Num
  | left=Expr '+' num -> Plus
;
