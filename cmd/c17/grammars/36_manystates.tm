# feature: a grammar with more than 127 (and more than 255) parser states and lexer states
language @NAME@(go);

package = "scratch/@NAME@"
@OPTIONS@

:: lexer

WhiteSpace: /[ \t\r\n]+/ (space)
ta: /a/
tb: /b/
tc: /c/
td: /d/
te: /e/
tf: /f/
longKeyword1: /abcdefghijklmnopqrstuvwxyz0123456789/
longKeyword2: /zyxwvutsrqponmlkjihgfedcba9876543210ABCDEFGHIJKLMNOPQRSTUVWXYZ/
longKeyword3: /ZYXWVUTSRQPONMLKJIHGFEDCBA0123456789zyxwvutsrqponmlkjihgfedcba/

:: parser

%input S;

S : R1 | R2 | R3 | R4 | R5 | R6 | longKeyword1 | longKeyword2 | longKeyword3 ;
R1 : ta ta ta ta ta ta ta ta ta ta ta ta ta ta ta ta ta ta ta ta ta ta ta ta ta ta ta ta ta ta ta ta ta ta ta ta ta ta ta ta ta ta ta ta ta ta ta ta ta ta ;
R2 : tb tb tb tb tb tb tb tb tb tb tb tb tb tb tb tb tb tb tb tb tb tb tb tb tb tb tb tb tb tb tb tb tb tb tb tb tb tb tb tb tb tb tb tb tb tb tb tb tb tb ;
R3 : tc tc tc tc tc tc tc tc tc tc tc tc tc tc tc tc tc tc tc tc tc tc tc tc tc tc tc tc tc tc tc tc tc tc tc tc tc tc tc tc tc tc tc tc tc tc tc tc tc tc ;
R4 : td td td td td td td td td td td td td td td td td td td td td td td td td td td td td td td td td td td td td td td td td td td td td td td td td td ;
R5 : te te te te te te te te te te te te te te te te te te te te te te te te te te te te te te te te te te te te te te te te te te te te te te te te te te ;
R6 : tf tf tf tf tf tf tf tf tf tf tf tf tf tf tf tf tf tf tf tf tf tf tf tf tf tf tf tf tf tf tf tf tf tf tf tf tf tf tf tf tf tf tf tf tf tf tf tf tf tf ;
