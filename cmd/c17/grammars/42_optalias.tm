# feature: aliasIncludesOptSuffix = false with symbols whose own names end in the opt suffix
# (`adopt`), next to real opt instantiations (`Atomopt`, `numopt`)
language @NAME@(go);

package = "scratch/@NAME@"
aliasIncludesOptSuffix = false
@OPTIONS@

:: lexer

WhiteSpace: /[ \t\r\n]+/ (space)
num {int}: /[0-9]+/ { $$ = len(l.Text()) }
'+': /\+/
';': /;/
'!': /!/

:: parser

%input Sum;

Sum {int} :
    adopt ';'                    { $$ = $adopt }
  | Sum[left] '+' adopt[right]   { $$ = $left + $right }
  | '!' Atomopt ';'              { $$ = 7 ; _ = $Atom }
  | '!' '!' numopt ';'           { $$ = 8 ; _ = $num }
;

adopt {int} :
    Atom                      { $$ = $Atom }
;

Atom {int} :
    num                       { $$ = $num }
;
