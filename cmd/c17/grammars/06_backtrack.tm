# feature: lexer that needs backtracking (rejected by the compiler under nonBacktracking = true)
language @NAME@(go);

package = "scratch/@NAME@"
@OPTIONS@

:: lexer

WhiteSpace: /[ \t\r\n]+/ (space)
ta: /a/
arrow: /a(bc)?-+>/
tb: /b/
tc: /c/
'-': /-/

:: parser

%input S;

S : ta | arrow | S tb | S tc | S '-' ;
