# feature: typed semantic values {int} on terminals and nonterminals, $$ and $name references
language @NAME@(go);

package = "scratch/@NAME@"
@OPTIONS@

:: lexer

WhiteSpace: /[ \t\r\n]+/ (space)
num {int}: /[0-9]+/ { $$ = len(l.Text()) }
'+': /\+/
'(': /\(/
')': /\)/

:: parser

%input Sum;

Sum {int} :
    Atom
  | Sum[left] '+' Atom[right]   { $$ = $left + $right }
;

Atom {int} :
    num                       { $$ = $num }
  | '(' Sum ')'               { $$ = $Sum }
;
