# feature: list syntax: + * ? with separators, nested choices, Xopt
language @NAME@(go);

package = "scratch/@NAME@"
@OPTIONS@

:: lexer

WhiteSpace: /[ \t\r\n]+/ (space)
ta: /a/
tb: /b/
tc: /c/
',': /,/
';': /;/

:: parser

%input S;

S : Line+ ;
Line :
    ta (ta separator ',')+ ';'
  | tb (tc separator ',' ';')* ';'
  | tc taopt (tb | tc ta?)* ';'
  | ',' tb+? ';'
;
