# feature: %empty rules and nullable nonterminals
language @NAME@(go);

package = "scratch/@NAME@"
@OPTIONS@

:: lexer

WhiteSpace: /[ \t\r\n]+/ (space)
ta: /a/
tb: /b/

:: parser

%input S;

S : Opt ta Opt2 tb ;
Opt : %empty | tb ;
Opt2 : | ta ta ;
