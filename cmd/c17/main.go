// C17 — generation completes and the generated Go code builds.
//
// Enumerated space: a fixed list of feature grammars (grammars/*.tm, each minimal for one feature of
// the Textmapper notation) x assignments of the 20 boolean Go options.
//
//	quick     per grammar: the default configuration, all 12 parser options on, and a
//	          pairwise-complete covering array over the options that are not pinned by the grammar
//	          (every pair of options takes all four value combinations in some row in which the
//	          options they depend on are enabled), built greedily and deterministically;
//	thorough  quick + per grammar every subset of the 12 parser options (others at their defaults),
//	          ordered by distance from the two corners (k options on / k options off, k = 0, 1, ...),
//	          all grammars per level. Every case is *generated*; the generated file sets are grouped
//	          by content (package name normalised) and one representative per distinct output is
//	          built, in enumeration order, until the budget is used (prefix reported).
//
// Phase A (worker subprocesses, log.Fatal is turned into a panic by a log output hook so the site is
// known; anything else that kills or stalls a worker is caught by the shard protocol): the real
// compiler.Compile + gen.Generate. A compile error means the grammar/option combination is rejected
// by the compiler and is not a case. Phase B (worker subprocesses): the files of a batch of cases are
// written into one scratch module and `go build ./...` compiles every package of it.
//
// Phase R: grammars that carry "#! run <input> => <records>" directives (semantic actions over typed
// symbols referenced by value and by location in every order) are also linked with the standard
// driver of internal/genharness and run: every input must be accepted and the actions must record
// exactly the stated values and offsets.
//
// Oracle: no worker death / panic / log.Fatal; gen.Generate returns nil; the generated packages (all of
// them: root, token, ast, selector) compile. With C17_VET=1 `go vet` also runs on the cases that build
// and its diagnostics are recorded as coverage only (the property says "build"; the two classes seen
// on the unchanged tree are "unreachable code" in ast/factory.go and stream.go).
package main

import (
	"crypto/sha1"
	"embed"
	"encoding/hex"
	"encoding/json"
	"fmt"
	"log"
	"math/bits"
	"os"
	"os/exec"
	"path/filepath"
	"regexp"
	"runtime"
	"sort"
	"strconv"
	"strings"
	"time"

	"github.com/inspirer/textmapper/grammar"

	"verif/internal/core"
	"verif/internal/genharness"
)

func main() { core.Main("C17", "exploration", run, replay, worker) }

// ---------------------------------------------------------------------------------------------
// Options.

type option struct {
	Name    string
	Default bool
	Parents []string // options that must be true for this one to have any effect
}

// The order is the order of the bits in a case mask. The first 12 are the "parser options" of the
// thorough tier.
var options = []option{
	{"eventBased", false, []string{"genParser"}},
	{"eventFields", false, []string{"eventBased"}},
	{"eventAST", false, []string{"eventBased"}},
	{"genSelector", false, []string{"eventBased"}},
	{"tokenStream", false, []string{"genParser"}},
	{"fixWhitespace", false, []string{"genParser"}},
	{"cancellable", false, []string{"genParser"}},
	{"cancellableFetch", false, []string{"cancellable"}},
	{"recursiveLookaheads", false, []string{"genParser"}},
	{"optimizeTables", false, []string{"genParser"}},
	{"defaultReduce", false, []string{"optimizeTables"}},
	{"minimizeDFA", false, []string{"genParser"}},
	{"writeBison", false, nil},
	{"debugParser", false, []string{"genParser"}},
	{"tokenLine", true, nil},
	{"tokenColumn", false, nil},
	{"scanBytes", false, nil},
	{"nonBacktracking", false, nil},
	{"caseInsensitive", false, nil},
	{"genParser", true, nil},
}

const numParserOptions = 12

func optIndex(name string) int {
	for i, o := range options {
		if o.Name == name {
			return i
		}
	}
	panic("unknown option " + name)
}

// ancestors[i] = bit set of the transitive parents of option i.
var ancestors = func() []uint32 {
	out := make([]uint32, len(options))
	var rec func(i int) uint32
	rec = func(i int) uint32 {
		var m uint32
		for _, p := range options[i].Parents {
			j := optIndex(p)
			m |= 1<<uint(j) | rec(j)
		}
		return m
	}
	for i := range options {
		out[i] = rec(i)
	}
	return out
}()

func defaultMask() uint32 {
	var m uint32
	for i, o := range options {
		if o.Default {
			m |= 1 << uint(i)
		}
	}
	return m
}

// ---------------------------------------------------------------------------------------------
// Feature grammars.

//go:embed grammars/*.tm
var grammarFS embed.FS

type featGrammar struct {
	Name    string // file name without extension
	Text    string
	PinMask uint32 // options fixed by the grammar
	PinVal  uint32
	Runs    []runCase // inputs to run on the built parser and what the semantic actions must record
}

// runCase is one "#! run <input> => <record> | <record>" directive: the semantic actions of the
// grammar call "scratch/rt".Record; parsing Input from the (only) input nonterminal must succeed and
// record exactly Want, in order.
type runCase struct {
	Input string   `json:"input"`
	Want  []string `json:"want"`
}

var pinRE = regexp.MustCompile(`(?m)^#! pin (\w+)=(true|false)\s*$`)
var runRE = regexp.MustCompile(`(?m)^#! run (.*?) => (.*?)\s*$`)

func loadGrammars() []*featGrammar {
	entries, err := grammarFS.ReadDir("grammars")
	if err != nil {
		panic(err)
	}
	var names []string
	for _, e := range entries {
		if only := os.Getenv("C17_ONLY"); only != "" && !strings.Contains(e.Name(), only) { // development aid
			continue
		}
		names = append(names, e.Name())
	}
	sort.Strings(names)
	var out []*featGrammar
	for _, n := range names {
		data, err := grammarFS.ReadFile("grammars/" + n)
		if err != nil {
			panic(err)
		}
		g := &featGrammar{Name: strings.TrimSuffix(n, ".tm"), Text: string(data)}
		for _, m := range pinRE.FindAllStringSubmatch(g.Text, -1) {
			i := optIndex(m[1])
			g.PinMask |= 1 << uint(i)
			if m[2] == "true" {
				g.PinVal |= 1 << uint(i)
			}
		}
		for _, m := range runRE.FindAllStringSubmatch(g.Text, -1) {
			rc := runCase{Input: m[1]}
			for _, w := range strings.Split(m[2], " | ") {
				rc.Want = append(rc.Want, strings.TrimSpace(w))
			}
			g.Runs = append(g.Runs, rc)
		}
		if !strings.Contains(g.Text, "@NAME@") || !strings.Contains(g.Text, "@OPTIONS@") {
			panic("grammar " + n + " lacks @NAME@/@OPTIONS@")
		}
		out = append(out, g)
	}
	return out
}

// effective applies the grammar's pins to a mask.
func (g *featGrammar) effective(mask uint32) uint32 {
	return mask&^g.PinMask | g.PinVal
}

func optionLines(mask uint32) []string {
	var out []string
	for i, o := range options {
		v := mask&(1<<uint(i)) != 0
		if v != o.Default {
			out = append(out, fmt.Sprintf("%s = %v", o.Name, v))
		}
	}
	return out
}

func (g *featGrammar) tm(name string, mask uint32) string {
	s := strings.ReplaceAll(g.Text, "@NAME@", name)
	return strings.Replace(s, "@OPTIONS@", strings.Join(optionLines(g.effective(mask)), "\n"), 1)
}

// ---------------------------------------------------------------------------------------------
// Pairwise covering arrays.

type target struct {
	a, b   int
	va, vb bool
}

func bit(m uint32, i int) bool { return m&(1<<uint(i)) != 0 }

func setBit(m uint32, i int, v bool) uint32 {
	if v {
		return m | 1<<uint(i)
	}
	return m &^ (1 << uint(i))
}

// needOf: the options that must be on for the pair t to be live: everything a or b depends on,
// except a and b themselves and pinned options. A pair that itself switches off something the other
// option depends on (eventFields = true with eventBased = false) is moot whatever the rest is; it
// only has to occur.
func needOf(t target, pinMask uint32) uint32 {
	if (!t.va && ancestors[t.b]&(1<<uint(t.a)) != 0) || (!t.vb && ancestors[t.a]&(1<<uint(t.b)) != 0) {
		return 0
	}
	return (ancestors[t.a] | ancestors[t.b]) &^ (1<<uint(t.a) | 1<<uint(t.b)) &^ pinMask
}

// satisfies: the row has a=va, b=vb and the pair is live in it.
func satisfies(row uint32, t target, pinMask uint32) bool {
	if bit(row, t.a) != t.va || bit(row, t.b) != t.vb {
		return false
	}
	need := needOf(t, pinMask)
	return row&need == need
}

// coveringRows returns the default configuration followed by rows that together satisfy every
// 2-way target over the free options. Deterministic greedy construction.
// The array depends on the grammar only through its pins, so it is computed once per distinct pin set.
var coveringCache = map[[2]uint32]struct {
	rows []uint32
	n    int
}{}

func coveringRows(g *featGrammar) (rows []uint32, ntargets int) {
	key := [2]uint32{g.PinMask, g.PinVal}
	if c, ok := coveringCache[key]; ok {
		return c.rows, c.n
	}
	rows, ntargets = coveringRowsUncached(g)
	coveringCache[key] = struct {
		rows []uint32
		n    int
	}{rows, ntargets}
	return rows, ntargets
}

func coveringRowsUncached(g *featGrammar) (rows []uint32, ntargets int) {
	var free []int
	for i := range options {
		if g.PinMask&(1<<uint(i)) == 0 {
			free = append(free, i)
		}
	}
	var targets []target
	for x := 0; x < len(free); x++ {
		for y := x + 1; y < len(free); y++ {
			for c := 0; c < 4; c++ {
				targets = append(targets, target{free[x], free[y], c&1 != 0, c&2 != 0})
			}
		}
	}
	covered := make([]bool, len(targets))
	remaining := len(targets)
	mark := func(row uint32) int {
		n := 0
		for i, t := range targets {
			if !covered[i] && satisfies(row, t, g.PinMask) {
				covered[i] = true
				n++
			}
		}
		remaining -= n
		return n
	}
	def := g.effective(defaultMask())
	rows = append(rows, def)
	mark(def)
	// second row: all 12 parser options on (the corner where every guard of the templates that
	// is a conjunction of options is taken), the other options at their defaults
	allOn := g.effective(defaultMask() | (uint32(1)<<numParserOptions - 1))
	if allOn != def {
		rows = append(rows, allOn)
		mark(allOn)
	}
	// One candidate row: seeded with target seed (and everything it depends on enabled), the other
	// free options visited in the rotation of free that starts at position rot, each taking the
	// value that satisfies more uncovered targets among the options fixed so far (dependencies not
	// fixed yet are counted optimistically).
	candidate := func(seed target, rot int) uint32 {
		row := def
		var fixed uint32 = g.PinMask
		fix := func(i int, v bool) {
			row = setBit(row, i, v)
			fixed |= 1 << uint(i)
		}
		fix(seed.a, seed.va)
		fix(seed.b, seed.vb)
		need := needOf(seed, g.PinMask) &^ fixed
		for i := range options {
			if need&(1<<uint(i)) != 0 {
				fix(i, true)
			}
		}
		for x := range free {
			o := free[(x+rot)%len(free)]
			if fixed&(1<<uint(o)) != 0 {
				continue
			}
			score := func(v bool) int {
				r := setBit(row, o, v)
				f := fixed | 1<<uint(o)
				n := 0
				for i, t := range targets {
					if covered[i] || (t.a != o && t.b != o) {
						continue
					}
					if f&(1<<uint(t.a)) == 0 || f&(1<<uint(t.b)) == 0 {
						continue
					}
					if bit(r, t.a) != t.va || bit(r, t.b) != t.vb {
						continue
					}
					nd := needOf(t, g.PinMask)
					if r&nd&f != nd&f { // a fixed dependency is off
						continue
					}
					n++
				}
				return n
			}
			st, sf := score(true), score(false)
			v := options[o].Default
			if st != sf {
				v = st > sf
			}
			fix(o, v)
		}
		return row
	}
	gain := func(row uint32) int {
		n := 0
		for i, t := range targets {
			if !covered[i] && satisfies(row, t, g.PinMask) {
				n++
			}
		}
		return n
	}
	for remaining > 0 {
		// candidates: the first few uncovered targets as seeds x every rotation of the option
		// order; the row that satisfies most uncovered targets wins (first one on ties)
		best, bestGain := uint32(0), -1
		seeds := 0
		for i, t := range targets {
			if covered[i] {
				continue
			}
			for rot := range free {
				row := candidate(t, rot)
				if gn := gain(row); gn > bestGain {
					best, bestGain = row, gn
				}
			}
			if seeds++; seeds >= 24 {
				break
			}
		}
		if mark(best) == 0 {
			panic("covering array construction made no progress")
		}
		rows = append(rows, best)
	}
	return rows, len(targets)
}

// ---------------------------------------------------------------------------------------------
// Case enumeration (identical in the parent and in every worker).

type caseRef struct {
	G    int
	Mask uint32 // before pins
}

type plan struct {
	grammars []*featGrammar
	cases    []caseRef
	quickN   int // the first quickN cases are the quick tier (covering arrays)
	rowsPer  []int
	targets  int
	levels   []int // thorough: cases[levelStart[k]:] begin level k
}

// parserSubsets lists the masks over the 12 parser options at "level" k: exactly k options on,
// or exactly k options off (the two corners first), in increasing numeric order.
func parserSubsets(k int) []uint32 {
	var out []uint32
	full := uint32(1)<<numParserOptions - 1
	for m := uint32(0); m <= full; m++ { // k on
		if bits.OnesCount32(m) == k {
			out = append(out, m)
		}
	}
	for m := uint32(0); m <= full && numParserOptions-k != k; m++ { // k off
		if bits.OnesCount32(m) == numParserOptions-k {
			out = append(out, m)
		}
	}
	return out
}

func buildPlan(tier string) *plan {
	p := &plan{grammars: loadGrammars()}
	seen := map[[2]uint32]bool{}
	add := func(gi int, mask uint32) bool {
		eff := p.grammars[gi].effective(mask)
		k := [2]uint32{uint32(gi), eff}
		if seen[k] {
			return false
		}
		seen[k] = true
		p.cases = append(p.cases, caseRef{gi, eff})
		return true
	}
	// quick: row-major over the covering arrays so that every grammar gets its default
	// configuration first
	all := make([][]uint32, len(p.grammars))
	maxRows := 0
	for gi, g := range p.grammars {
		rows, nt := coveringRows(g)
		all[gi] = rows
		p.rowsPer = append(p.rowsPer, len(rows))
		p.targets += nt
		maxRows = max(maxRows, len(rows))
	}
	for r := 0; r < maxRows; r++ {
		for gi := range p.grammars {
			if r < len(all[gi]) {
				add(gi, all[gi][r])
			}
		}
	}
	p.quickN = len(p.cases)
	if tier == "thorough" {
		rest := defaultMask() &^ (uint32(1)<<numParserOptions - 1)
		for k := 0; k <= numParserOptions/2; k++ {
			p.levels = append(p.levels, len(p.cases))
			for _, m := range parserSubsets(k) {
				for gi := range p.grammars {
					add(gi, m|rest)
				}
			}
		}
	}
	return p
}

func caseName(idx int) string { return fmt.Sprintf("g%06d", idx) }

func (p *plan) desc(idx int) string {
	cr := p.cases[idx]
	return p.grammars[cr.G].Name + " [" + strings.Join(optionLines(cr.Mask), ", ") + "]"
}

// ---------------------------------------------------------------------------------------------
// log.Fatal hook: log.Fatal* writes the message through the logger's output before os.Exit(1); the
// hook panics from inside that write with the identity of the function that called log.Fatal*, so
// that the exit becomes an attributable panic (recovered by genharness.Generate's guard or by
// text/template, which turns a panicking template function into an execution error).

const fatalMarker = "VERIF-LOG-FATAL"

type logHook struct{}

func (logHook) Write(p []byte) (int, error) {
	pcs := make([]uintptr, 64)
	n := runtime.Callers(2, pcs)
	frames := runtime.CallersFrames(pcs[:n])
	fatal := false
	for {
		f, more := frames.Next()
		fn := f.Function
		if fn == "log.Fatal" || fn == "log.Fatalf" || fn == "log.Fatalln" || strings.HasPrefix(fn, "log.(*Logger).Fatal") {
			fatal = true
		} else if fatal && !strings.HasPrefix(fn, "log.") {
			panic(fmt.Sprintf("%s site=%s msg=%s", fatalMarker, shortFunc(fn), strings.TrimSpace(string(p))))
		}
		if !more {
			break
		}
	}
	if fatal {
		panic(fmt.Sprintf("%s site=unknown msg=%s", fatalMarker, strings.TrimSpace(string(p))))
	}
	return len(p), nil
}

func installHook() {
	if os.Getenv("C17_NOHOOK") != "" {
		return // debugging aid: let log.Fatal kill the worker (exercises the death path)
	}
	log.SetFlags(0)
	log.SetOutput(logHook{})
}

var closureRE = regexp.MustCompile(`(\.func[0-9]+|\.[0-9]+|\.gowrap[0-9]+)+$`)
var recvRE = regexp.MustCompile(`\(\*?\w+\)\.`)

// shortFunc: "github.com/inspirer/textmapper/grammar.(*Grammar).ExprString" -> "grammar.ExprString".
func shortFunc(fn string) string {
	if i := strings.LastIndex(fn, "/"); i >= 0 {
		fn = fn[i+1:]
	}
	fn = closureRE.ReplaceAllString(fn, "")
	return recvRE.ReplaceAllString(fn, "")
}

var fatalRE = regexp.MustCompile(fatalMarker + ` site=(\S+) msg=([^\n]*)`)

// stackSite returns the innermost textmapper function of a Go stack dump.
func stackSite(stack string) string {
	for _, l := range strings.Split(stack, "\n") {
		if strings.HasPrefix(l, "\t") || !strings.Contains(l, "inspirer/textmapper/") {
			continue
		}
		l = strings.TrimPrefix(l, "created by ")
		if j := strings.LastIndex(l, "("); j > 0 && strings.HasSuffix(strings.TrimSpace(l), ")") {
			l = l[:j]
		}
		return shortFunc(strings.TrimSpace(l))
	}
	return ""
}

// ---------------------------------------------------------------------------------------------
// Classification of failures into stable keys "<class>:<site>".

var (
	genErrRE    = regexp.MustCompile(`error generating (\S+?):`)
	callRE      = regexp.MustCompile(`error calling (\w+)`)
	numRE       = regexp.MustCompile(`[0-9]+`)
	posRE       = regexp.MustCompile(`(\S+\.go):\d+(:\d+)?:?`)
	dupMethRE   = regexp.MustCompile(`method (\w+)\.(\w+) already declared`)
	dupFieldRE  = regexp.MustCompile(`field and method with the same name (\w+)`)
	unusedImRE  = regexp.MustCompile(`"([^"]+)" imported (?:as \w+ )?and not used`)
	unusedVaRE  = regexp.MustCompile(`declared and not used: (\w+)`)
	undefRE     = regexp.MustCompile(`undefined: (\S+)`)
	redeclRE    = regexp.MustCompile(`(\S+) redeclared`)
	dupCaseRE   = regexp.MustCompile(`duplicate case (\S+)`)
	overflowRE  = regexp.MustCompile(`(overflows|truncated to) (\w+)`)
	noPkgRE     = regexp.MustCompile(`package (\S+) is not in std`)
	overflow2RE = regexp.MustCompile(`as (\w+) value in .*\((overflows|truncated)\)`)
	noFieldRE   = regexp.MustCompile(`undefined \(type (\S+) has no field or method (\w+)`)
	arityRE     = regexp.MustCompile(`(not enough|too many) arguments in call to (\S+)`)
	wrongMethRE = regexp.MustCompile(`\((missing|wrong type for) method (\w+)\)`)
	buildLnRE   = regexp.MustCompile(`^(?:vet: )?(?:\./)?(g\d+)/(\S+?\.go):\d+(?::\d+)?: (.*)$`)
)

// genFailureKey classifies a GenErr / GenPanic of genharness.Generate ("" = compile error, not a case).
func genFailureKey(genErr, genPanic string) (status, key string) {
	if genPanic != "" {
		if m := fatalRE.FindStringSubmatch(genPanic); m != nil {
			return "exit", "exit:" + m[1]
		}
		site := stackSite(genPanic)
		if site == "" {
			site = "unknown"
		}
		return "panic", "panic:" + site
	}
	if strings.HasPrefix(genErr, "compile: ") {
		return "reject", ""
	}
	// generate: ...
	if m := fatalRE.FindStringSubmatch(genErr); m != nil {
		return "exit", "exit:" + m[1]
	}
	file, fn := "unknown", ""
	if m := genErrRE.FindStringSubmatch(genErr); m != nil {
		file = numRE.ReplaceAllString(m[1], "N")
	}
	if m := callRE.FindStringSubmatch(genErr); m != nil {
		fn = ":" + m[1]
	}
	if strings.Contains(genErr, "runtime error") || strings.Contains(genErr, "panic") {
		return "generr", "generate-panic:" + file + fn
	}
	return "generr", "generate-error:" + file + fn
}

func slug(s string, maxWords int) string {
	s = posRE.ReplaceAllString(s, "")
	s = numRE.ReplaceAllString(s, "N")
	f := strings.FieldsFunc(s, func(r rune) bool {
		return !(r >= 'a' && r <= 'z' || r >= 'A' && r <= 'Z' || r >= '0' && r <= '9' || r == '_' || r == '.')
	})
	if len(f) > maxWords {
		f = f[:maxWords]
	}
	return strings.Join(f, "-")
}

// buildMsgClass turns one compiler / vet message into a class that names the defect.
func buildMsgClass(msg string) string {
	switch {
	case dupMethRE.MatchString(msg):
		return "duplicate-method-" + dupMethRE.FindStringSubmatch(msg)[2]
	case dupFieldRE.MatchString(msg):
		return "field-and-method-" + dupFieldRE.FindStringSubmatch(msg)[1]
	case unusedImRE.MatchString(msg):
		return "unused-import-" + unusedImRE.FindStringSubmatch(msg)[1]
	case unusedVaRE.MatchString(msg):
		return "unused-variable-" + unusedVaRE.FindStringSubmatch(msg)[1]
	case noFieldRE.MatchString(msg):
		m := noFieldRE.FindStringSubmatch(msg)
		return "no-field-or-method-" + strings.TrimLeft(m[1], "*") + "." + m[2]
	case arityRE.MatchString(msg):
		m := arityRE.FindStringSubmatch(msg)
		return "call-arity-" + m[2]
	case wrongMethRE.MatchString(msg):
		m := wrongMethRE.FindStringSubmatch(msg)
		return "interface-not-implemented-" + m[2]
	case undefRE.MatchString(msg):
		return "undefined-" + undefRE.FindStringSubmatch(msg)[1]
	case redeclRE.MatchString(msg):
		return "redeclared-" + redeclRE.FindStringSubmatch(msg)[1]
	case dupCaseRE.MatchString(msg):
		return "duplicate-case"
	case noPkgRE.MatchString(msg):
		pk := noPkgRE.FindStringSubmatch(msg)[1]
		return "imports-package-that-is-not-generated-" + pk[strings.LastIndex(pk, "/")+1:]
	case overflow2RE.MatchString(msg):
		return "constant-overflows-" + overflow2RE.FindStringSubmatch(msg)[1]
	case overflowRE.MatchString(msg):
		m := overflowRE.FindStringSubmatch(msg)
		return "constant-overflows-" + m[2]
	case strings.Contains(msg, "syntax error") || strings.HasPrefix(msg, "expected "):
		return "syntax-error-" + slug(strings.TrimPrefix(msg, "syntax error: "), 6)
	}
	return slug(msg, 8)
}

// buildKeys extracts the distinct "build:<class>:<file>" keys of the compiler output of one case.
func buildKeys(buildErr, name string) []string {
	var keys []string
	seen := map[string]bool{}
	for _, l := range strings.Split(buildErr, "\n") {
		l = strings.TrimSpace(l)
		m := buildLnRE.FindStringSubmatch(l)
		if m == nil {
			continue
		}
		kind := "build"
		if strings.HasPrefix(l, "vet: ") {
			kind = "vet"
		}
		msg := strings.ReplaceAll(m[3], name, "NAME")
		if strings.HasPrefix(msg, "too many errors") || strings.Contains(msg, "other declaration of") {
			continue
		}
		k := kind + ":" + buildMsgClass(msg) + ":" + m[2]
		if !seen[k] {
			seen[k] = true
			keys = append(keys, k)
		}
	}
	if len(keys) == 0 {
		keys = append(keys, "build:unclassified:"+slug(strings.ReplaceAll(buildErr, name, "NAME"), 8))
	}
	return keys
}

// ---------------------------------------------------------------------------------------------
// Worker protocol.
//
//	worker args: <phase> <source> [<list file>] [<deadline unix>]
//	phase  "gen":   generate every case of the source that is mine, one record per case
//	       "build": the list file holds case indices (JSON array); position k in the list is the
//	                shard index; cases are generated again and built in batches
//	source "enum" (the plan of the tier) or a JSON file [{"name":..,"tm":..}] (replay)

type fileCase struct {
	Desc    string    `json:"desc"`
	Grammar string    `json:"grammar,omitempty"`
	TM      string    `json:"tm"` // with @NAME@ placeholders
	Runs    []runCase `json:"runs,omitempty"`
}

type source struct {
	p     *plan
	files []fileCase
}

func openSource(tier, spec string) *source {
	if spec == "enum" {
		return &source{p: buildPlan(tier)}
	}
	data, err := os.ReadFile(spec)
	if err != nil {
		panic(err)
	}
	s := &source{}
	if err := json.Unmarshal(data, &s.files); err != nil {
		panic(err)
	}
	return s
}

func (s *source) n() int {
	if s.p != nil {
		return len(s.p.cases)
	}
	return len(s.files)
}

func (s *source) tm(idx int) string {
	name := caseName(idx)
	if s.p != nil {
		cr := s.p.cases[idx]
		return s.p.grammars[cr.G].tm(name, cr.Mask)
	}
	return strings.ReplaceAll(s.files[idx].TM, "@NAME@", name)
}

// runs returns the grammar name and the run directives of case idx.
func (s *source) runs(idx int) (string, []runCase) {
	if s.p != nil {
		g := s.p.grammars[s.p.cases[idx].G]
		return g.Name, g.Runs
	}
	return s.files[idx].Grammar, s.files[idx].Runs
}

func (s *source) desc(idx int) string {
	if s.p != nil {
		return s.p.desc(idx)
	}
	return s.files[idx].Desc
}

type record struct {
	T     string `json:"t"` // g = generated, b = built, cap = stopped at the deadline
	Idx   int    `json:"i"`
	St    string `json:"st,omitempty"` // ok | reject | generr | panic | exit
	Key   string `json:"k,omitempty"`
	What  string `json:"w,omitempty"`
	Hash  string `json:"h,omitempty"`
	Files int    `json:"nf,omitempty"`
	Feat  string `json:"f,omitempty"` // features of the compiled grammar (coverage)
	Err   string `json:"e,omitempty"` // build: the compiler's messages
	Vet   string `json:"v,omitempty"` // build: go vet diagnostics (informational)
}

func hashFiles(files map[string]string, name string) string {
	h := sha1.New()
	for _, fn := range genharness.SortedFiles(files) {
		fmt.Fprintf(h, "%s\x00%d\x00", strings.ReplaceAll(fn, name, "NAME"), len(files[fn]))
		h.Write([]byte(strings.ReplaceAll(files[fn], name, "NAME")))
	}
	return hex.EncodeToString(h.Sum(nil)[:10])
}

// features summarises which generator paths a compiled grammar exercises (coverage only).
func features(g *grammar.Grammar, files map[string]string) string {
	var f []string
	if g.Parser != nil && g.Parser.Tables != nil {
		f = append(f, "parser")
		if len(g.Parser.Tables.Lookaheads) > 0 {
			f = append(f, "lookaheads")
		}
		if g.Parser.Tables.Optimized != nil {
			f = append(f, "optimized")
		}
		if g.Parser.IsRecovering {
			f = append(f, "recovering")
		}
		if g.Parser.Types != nil {
			f = append(f, "types")
		}
		if g.Parser.Tables.NumStates > 127 {
			f = append(f, "states>127")
		}
	}
	for _, fn := range genharness.SortedFiles(files) {
		switch {
		case strings.HasSuffix(fn, ".y"):
			f = append(f, "file:bison")
		case fn == "stream.go", fn == "selector/selector.go", fn == "ast/tree.go", fn == "ast/ast.go":
			f = append(f, "file:"+fn)
		}
	}
	return strings.Join(f, ",")
}

func trimTo(s string, n int) string {
	if len(s) > n {
		return s[:n] + "…"
	}
	return s
}

const buildBatch = 32

// buildSpec is one case of a build batch.
type buildSpec struct {
	Idx  int
	Name string
	TM   string
}

func goEnv() []string {
	return append(os.Environ(), "GOFLAGS=-mod=mod", "GOPROXY=off", "GOTOOLCHAIN=local", "GOSUMDB=off", "GOWORK=off")
}

var pkgHeaderRE = regexp.MustCompile(`^# scratch/(g\d+)`)
var errLineRE = regexp.MustCompile(`^(?:vet: )?(?:\./)?(g\d+)/`)

// buildAll generates every spec again (in this process), writes all generated files as packages
// scratch/<name>/... of one scratch module and runs `go build ./...` on it, which compiles every
// package of every case (root, token, ast, selector) without linking anything. Cases whose packages
// fail are removed and the build is repeated until it is clean, so that every failing case gets its
// own complete error text. (genharness.RunBatch is not used here: it builds one binary that imports
// the root packages only, so ast/ and selector/ are never compiled, and its vet pass drops the type
// errors go vet reports for them.) With vet = true, `go vet ./...` runs on the cases that build and
// its diagnostics are returned in Vet — they are not build failures and are not part of the oracle.
func buildAll(specs []buildSpec, vet bool) ([]record, error) {
	dir, err := os.MkdirTemp("", "verif-c17-build-")
	if err != nil {
		return nil, err
	}
	defer os.RemoveAll(dir)
	if err := os.WriteFile(filepath.Join(dir, "go.mod"), []byte("module scratch\n\ngo 1.25\n"), 0o644); err != nil {
		return nil, err
	}
	// semantic actions of the action-reference grammars call "scratch/rt".Record; a stub is enough to
	// compile them (the run phase uses the real runtime of internal/genharness)
	if err := os.MkdirAll(filepath.Join(dir, "rt"), 0o755); err != nil {
		return nil, err
	}
	if err := os.WriteFile(filepath.Join(dir, "rt", "rt.go"), []byte("package rt\n\nfunc Record(format string, args ...any) {}\n"), 0o644); err != nil {
		return nil, err
	}
	recs := make([]record, len(specs))
	byName := map[string]int{}
	alive := map[int]bool{}
	for i, sp := range specs {
		recs[i] = record{T: "b", Idx: sp.Idx, St: "ok"}
		byName[sp.Name] = i
		_, files, genErr, genPanic := genharness.Generate(sp.Name, sp.TM)
		if genErr != "" || genPanic != "" {
			recs[i].St, recs[i].Err = "regen-failed", trimTo(genErr+genPanic, 1500)
			continue
		}
		for fn, content := range files {
			p := filepath.Join(dir, sp.Name, fn)
			if err := os.MkdirAll(filepath.Dir(p), 0o755); err != nil {
				return nil, err
			}
			if err := os.WriteFile(p, []byte(content), 0o644); err != nil {
				return nil, err
			}
		}
		alive[i] = true
	}
	attribute := func(out string) map[int][]string {
		failed := map[int][]string{}
		cur := -1
		for _, line := range strings.Split(out, "\n") {
			if m := pkgHeaderRE.FindStringSubmatch(line); m != nil {
				cur = -1
				if i, ok := byName[m[1]]; ok {
					cur = i
					failed[i] = append(failed[i], line)
				}
				continue
			}
			if m := errLineRE.FindStringSubmatch(line); m != nil {
				if i, ok := byName[m[1]]; ok {
					failed[i] = append(failed[i], line)
					continue
				}
			}
			if cur >= 0 && strings.TrimSpace(line) != "" { // continuation lines of a message
				failed[cur] = append(failed[cur], line)
			}
		}
		return failed
	}
	for round := 0; len(alive) > 0; round++ {
		cmd := exec.Command("go", "build", "./...")
		cmd.Dir = dir
		cmd.Env = goEnv()
		out, err := cmd.CombinedOutput()
		if err == nil {
			break
		}
		failed := attribute(string(out))
		n := 0
		for i, lines := range failed {
			if !alive[i] {
				continue
			}
			recs[i].St, recs[i].Err = "build-error", trimTo(strings.Join(lines, "\n"), 3000)
			delete(alive, i)
			os.RemoveAll(filepath.Join(dir, specs[i].Name))
			n++
		}
		if n == 0 || round > len(specs)+2 {
			return nil, fmt.Errorf("go build failed and could not be attributed: %s", trimTo(string(out), 2000))
		}
	}
	if vet && len(alive) > 0 {
		cmd := exec.Command("go", "vet", "./...")
		cmd.Dir = dir
		cmd.Env = goEnv()
		out, _ := cmd.CombinedOutput()
		for i, lines := range attribute(string(out)) {
			var keep []string
			for _, l := range lines {
				if !strings.HasPrefix(l, "#") {
					keep = append(keep, l)
				}
			}
			recs[i].Vet = trimTo(strings.Join(keep, "\n"), 1500)
		}
	}
	return recs, nil
}

func worker(w *core.Worker) {
	installHook()
	if len(w.Args) < 2 {
		fmt.Fprintln(os.Stderr, "worker: phase and source expected")
		os.Exit(2)
	}
	phase, src := w.Args[0], openSource(w.Tier, w.Args[1])
	var deadline time.Time
	if len(w.Args) >= 4 {
		if u, err := strconv.ParseInt(w.Args[3], 10, 64); err == nil && u > 0 {
			deadline = time.Unix(u, 0)
		}
	}
	switch phase {
	case "gen":
		for idx := 0; idx < src.n(); idx++ {
			if !w.Mine(idx) {
				continue
			}
			if !deadline.IsZero() && time.Now().After(deadline) {
				w.Emit(record{T: "cap", Idx: idx})
				break
			}
			w.Case(idx, src.desc(idx))
			name := caseName(idx)
			g, files, genErr, genPanic := genharness.Generate(name, src.tm(idx))
			r := record{T: "g", Idx: idx}
			if genErr != "" || genPanic != "" {
				r.St, r.Key = genFailureKey(genErr, genPanic)
				r.What = trimTo(genErr+genPanic, 1800)
			} else {
				r.St, r.Hash, r.Files, r.Feat = "ok", hashFiles(files, name), len(files), features(g, files)
				// a file that gofmt could not parse is kept verbatim with a marker comment
				for _, fn := range genharness.SortedFiles(files) {
					if strings.HasPrefix(files[fn], "// go fmt failed with") {
						r.Feat += ",gofmt-failed"
						break
					}
				}
			}
			w.Emit(r)
		}
	case "build":
		var list []int
		data, err := os.ReadFile(w.Args[2])
		if err != nil {
			panic(err)
		}
		if err := json.Unmarshal(data, &list); err != nil {
			panic(err)
		}
		var mine []int // positions
		for k := range list {
			if w.Mine(k) {
				mine = append(mine, k)
			}
		}
		for start := 0; start < len(mine); start += buildBatch {
			if !deadline.IsZero() && time.Now().After(deadline) {
				w.Emit(record{T: "cap", Idx: mine[start]})
				break
			}
			end := min(start+buildBatch, len(mine))
			var specs []buildSpec
			for _, k := range mine[start:end] {
				idx := list[k]
				specs = append(specs, buildSpec{Idx: idx, Name: caseName(idx), TM: src.tm(idx)})
			}
			desc := fmt.Sprintf("build batch of %d starting with %s", end-start, src.desc(list[mine[start]]))
			w.Case(mine[start], desc)
			// keep-alive while the go command runs (the machine is shared; a batch can take
			// minutes): re-announce the batch every 30 s, for at most 15 minutes
			stop, stopped := make(chan struct{}), make(chan struct{})
			go func() {
				defer close(stopped)
				t := time.NewTicker(30 * time.Second)
				defer t.Stop()
				for n := 0; n < 30; n++ {
					select {
					case <-stop:
						return
					case <-t.C:
						w.Case(mine[start], desc)
					}
				}
			}()
			recs, err := buildAll(specs, os.Getenv("C17_VET") != "")
			close(stop)
			<-stopped
			if err != nil {
				for _, sp := range specs {
					w.Emit(record{T: "b", Idx: sp.Idx, St: "harness", Err: trimTo(err.Error(), 1500)})
				}
				continue
			}
			for _, r := range recs {
				w.Emit(r)
			}
			w.Flush()
		}
	case "run":
		// the list file holds case indices; every case is generated, built (genharness.RunBatch with
		// its standard in-package driver) and the grammar's run directives are fed to the parser
		var list []int
		data, err := os.ReadFile(w.Args[2])
		if err != nil {
			panic(err)
		}
		if err := json.Unmarshal(data, &list); err != nil {
			panic(err)
		}
		const runBatch = 12
		var mine []int
		for k := range list {
			if w.Mine(k) {
				mine = append(mine, k)
			}
		}
		for start := 0; start < len(mine); start += runBatch {
			end := min(start+runBatch, len(mine))
			var specs []genharness.Spec
			for _, k := range mine[start:end] {
				idx := list[k]
				_, runs := src.runs(idx)
				var cases []genharness.Case
				for _, rc := range runs {
					cases = append(cases, genharness.Case{Mode: "parse", Text: rc.Input})
				}
				specs = append(specs, genharness.Spec{Name: caseName(idx), TM: src.tm(idx), Cases: cases})
			}
			desc := fmt.Sprintf("run batch of %d starting with %s", end-start, src.desc(list[mine[start]]))
			w.Case(mine[start], desc)
			stop, stopped := make(chan struct{}), make(chan struct{})
			go func() {
				defer close(stopped)
				t := time.NewTicker(30 * time.Second)
				defer t.Stop()
				for n := 0; n < 30; n++ {
					select {
					case <-stop:
						return
					case <-t.C:
						w.Case(mine[start], desc)
					}
				}
			}()
			outs, err := genharness.RunBatch(specs, genharness.BatchOpts{})
			close(stop)
			<-stopped
			for bi, k := range mine[start:end] {
				idx := list[k]
				gname, runs := src.runs(idx)
				r := record{T: "r", Idx: idx, St: "ok", Files: len(runs)}
				switch {
				case err != nil:
					r.St, r.Err = "harness", trimTo(err.Error(), 1000)
				case outs[bi].GenErr != "" || outs[bi].GenPanic != "" || outs[bi].BuildErr != "":
					// reported by the generation / build phases
					r.St, r.Err = "not-built", trimTo(outs[bi].GenErr+outs[bi].GenPanic+outs[bi].BuildErr, 600)
				case len(outs[bi].Results) != len(runs):
					r.St, r.Err = "harness", "no results from the driver"
				default:
					for j, rc := range runs {
						res := outs[bi].Results[j]
						tag := strings.Fields(rc.Want[0] + " ?")[0]
						class := ""
						switch {
						case res.Panic != "" || res.Hang || res.Aborted:
							class = "parser-crash-or-hang"
						case !res.Accept:
							class = "input-rejected"
						case strings.Join(res.Values, " | ") != strings.Join(rc.Want, " | "):
							class = "action-observes-wrong-values"
						}
						if class != "" {
							r.St = "mismatch"
							r.Key = "run:" + class + ":" + gname + ":" + tag
							r.What = fmt.Sprintf("input %q: semantic actions recorded [%s], expected [%s] (accept=%v erroff=%d panic=%q)", rc.Input, strings.Join(res.Values, " | "), strings.Join(rc.Want, " | "), res.Accept, res.ErrOff, trimTo(res.Panic, 300))
							break
						}
					}
				}
				w.Emit(r)
			}
			w.Flush()
		}
	default:
		fmt.Fprintln(os.Stderr, "worker: unknown phase", phase)
		os.Exit(2)
	}
}

// ---------------------------------------------------------------------------------------------
// Parent.

type replayCase struct {
	Grammar string    `json:"grammar"`
	Options []string  `json:"options"`
	TM      string    `json:"tm"` // @NAME@ = package name placeholder
	Runs    []runCase `json:"runs,omitempty"`
}

type violations struct {
	m map[string]*vio
}

type vio struct {
	idx   int
	what  string
	rc    replayCase
	count int
}

func (v *violations) add(idx int, key, what string, rc replayCase, n int) {
	if v.m == nil {
		v.m = map[string]*vio{}
	}
	p, ok := v.m[key]
	if !ok {
		v.m[key] = &vio{idx: idx, what: what, rc: rc, count: n}
		return
	}
	p.count += n
	if idx < p.idx {
		p.idx, p.what, p.rc = idx, what, rc
	}
}

func (v *violations) flush(c *core.Ctx) {
	var keys []string
	for k := range v.m {
		keys = append(keys, k)
	}
	sort.Strings(keys)
	for _, k := range keys {
		p := v.m[k]
		c.Violate(k, fmt.Sprintf("%s\n(%d case(s) with this key; simplest: %s [%s])", p.what, p.count, p.rc.Grammar, strings.Join(p.rc.Options, ", ")), p.rc)
		for i := 1; i < p.count; i++ {
			c.Violate(k, "", nil)
		}
	}
}

func deathKey(how, tail string) string {
	class := "crash"
	switch {
	case strings.Contains(how, "no progress"):
		class = "hang"
	case strings.Contains(how, "exit status 1"), strings.Contains(how, "exited 0"):
		class = "exit"
	case strings.Contains(tail, "stack overflow") || strings.Contains(tail, "stack exceeds"):
		class = "stack-overflow"
	}
	site := stackSite(tail)
	if site == "" {
		lines := strings.Split(strings.TrimSpace(tail), "\n")
		site = "~" + slug(lines[len(lines)-1], 6)
	}
	return "death:" + class + ":" + site
}

func goVersion() string {
	out, err := exec.Command("go", "version").Output()
	if err != nil {
		return "unknown"
	}
	return strings.TrimSpace(string(out))
}

func run(c *core.Ctx) {
	p := buildPlan(c.Tier)
	if os.Getenv("C17_PLAN") != "" { // development aid: print the plan and stop
		for gi, g := range p.grammars {
			fmt.Printf("%-16s rows=%d\n", g.Name, p.rowsPer[gi])
		}
		for i := 0; i < len(p.cases) && i < 2000; i++ {
			if p.cases[i].G == 0 || i >= p.quickN {
				fmt.Println(i, p.desc(i))
			}
		}
		fmt.Println("cases", len(p.cases), "quick", p.quickN, "targets", p.targets)
		os.Exit(0)
	}
	c.Rule("feature grammars (cmd/c17/grammars/*.tm, one feature each) x option assignments: per grammar the default configuration, the configuration with all 12 parser options on and a greedy pairwise-complete covering array over the 20 boolean options (every pair of free options in all 4 value combinations, in a row where the options they depend on are on); thorough adds every subset of the 12 parser options per grammar, by distance from the all-off / all-on corners. " +
		"A case is distinct by (grammar, effective option assignment); non-trivial = accepted by the compiler and generating a file set (by content, package name normalised) not seen before, i.e. a distinct set of packages handed to go build")
	c.Assume("log.Fatal* is observed through a log output hook that panics with the caller's identity (the process would exit right after writing the message); other worker deaths and hangs are detected by the shard protocol")
	c.Assume("`go build ./...` of " + goVersion() + " decides 'builds'; two cases whose generated files are byte-identical after replacing the package name build alike, so one representative per distinct output is built")
	c.Assume("a compiler.Compile error means the grammar x option combination is rejected by the compiler and is outside the property's domain (counted as compile-rejected)")
	c.Set("grammars", len(p.grammars))
	c.Set("planned_cases", len(p.cases))
	c.Set("quick_cases", p.quickN)
	c.Set("pairwise_targets", p.targets)
	rows := map[string]int{}
	for gi, g := range p.grammars {
		rows[g.Name] = p.rowsPer[gi]
	}
	c.Set("covering_rows_per_grammar", rows)

	rcOf := func(idx int) replayCase {
		cr := p.cases[idx]
		g := p.grammars[cr.G]
		return replayCase{Grammar: g.Name, Options: optionLines(cr.Mask), TM: g.tm("@NAME@", cr.Mask), Runs: g.Runs}
	}

	var vs violations
	// ---- phase A: generate everything
	type genInfo struct {
		st   string
		hash string
	}
	info := make([]genInfo, len(p.cases))
	featSeen := map[string]int{}
	genDeadline := c.Start.Add(c.Deadline.Sub(c.Start) * 2 / 5) // generation may use 40% of the budget, building gets the rest
	genCapped := -1
	c.RunShards(core.ShardOpts{
		N:    16,
		Args: []string{"gen", "enum", "-", strconv.FormatInt(genDeadline.Unix(), 10)},
		OnRecord: func(shard int, raw json.RawMessage) {
			var r record
			if err := json.Unmarshal(raw, &r); err != nil {
				c.Capped("unparsable worker record: " + err.Error())
				return
			}
			switch r.T {
			case "cap":
				if genCapped < 0 || r.Idx < genCapped {
					genCapped = r.Idx
				}
			case "g":
				info[r.Idx] = genInfo{r.St, r.Hash}
				if r.St == "ok" {
					for _, f := range strings.Split(r.Feat, ",") {
						if f != "" {
							featSeen[f]++
						}
					}
					if strings.Contains(r.Feat, "gofmt-failed") {
						// reported through the build error that follows; counted here
						c.Add("gofmt_failed_outputs", 1)
					}
				} else if r.Key != "" {
					vs.add(r.Idx, r.Key, r.What, rcOf(r.Idx), 1)
				}
			}
		},
		OnDeath: func(idx int, desc, how, tail string) {
			info[idx] = genInfo{st: "death"}
			vs.add(idx, deathKey(how, tail), fmt.Sprintf("worker died while generating (%s)\n%s", how, trimTo(tail, 1500)), rcOf(idx), 1)
		},
	})
	// the completed prefix: everything below the first case that was not generated
	done := len(p.cases)
	for i := range info {
		if info[i].st == "" {
			done = i
			break
		}
	}
	if done < len(p.cases) {
		c.Capped(fmt.Sprintf("generation stopped at case %d of %d (%s) — budget", done, len(p.cases), p.desc(done)))
	}
	groups := map[string][]int{}
	var reps []int
	perGrammarAccepted := make([]int, len(p.grammars))
	for i := 0; i < done; i++ {
		c.Eval(1)
		st := info[i].st
		switch st {
		case "ok":
			perGrammarAccepted[p.cases[i].G]++
			if _, ok := groups[info[i].hash]; !ok {
				reps = append(reps, i)
			}
			groups[info[i].hash] = append(groups[info[i].hash], i)
			c.Outcome("generated", 1)
		case "reject":
			c.Outcome("compile-rejected (not a case)", 1)
		default:
			c.Outcome(st, 1)
		}
	}
	for gi, n := range perGrammarAccepted {
		if n == 0 {
			c.Capped("feature grammar " + p.grammars[gi].Name + " was never accepted by the compiler (vacuous)")
		}
	}
	c.Set("generator_features_seen", featSeen)
	c.Set("distinct_outputs", len(reps))

	dir, err := os.MkdirTemp("", "verif-c17-")
	if err != nil {
		panic(err)
	}
	defer os.RemoveAll(dir)

	// ---- phase R: run the grammars that carry "#! run" directives (a handful of cases: the first
	// rows of each such grammar in which the standard driver can parse, i.e. genParser on,
	// tokenStream and debugParser off) and compare what their semantic actions record
	const runRowsPerGrammar = 6
	var runList []int
	perG := map[int]int{}
	for i := 0; i < done && i < p.quickN; i++ {
		cr := p.cases[i]
		if info[i].st != "ok" || len(p.grammars[cr.G].Runs) == 0 || perG[cr.G] >= runRowsPerGrammar {
			continue
		}
		// debugParser prints the parser's trace on the driver's stdout, which is its result channel
		if !bit(cr.Mask, optIndex("genParser")) || bit(cr.Mask, optIndex("tokenStream")) || bit(cr.Mask, optIndex("debugParser")) {
			continue
		}
		perG[cr.G]++
		runList = append(runList, i)
	}
	if len(runList) > 0 {
		runFile := filepath.Join(dir, "run.json")
		data, _ := json.Marshal(runList)
		os.WriteFile(runFile, data, 0o644)
		ran := 0
		c.RunShards(core.ShardOpts{
			N:       2,
			Args:    []string{"run", "enum", runFile},
			Silence: 300 * time.Second,
			OnRecord: func(shard int, raw json.RawMessage) {
				var r record
				if json.Unmarshal(raw, &r) != nil || r.T != "r" {
					return
				}
				switch r.St {
				case "ok":
					ran++
					c.Outcome("run: actions observe the expected values", int64(r.Files))
					c.Traces(int64(r.Files))
				case "mismatch":
					ran++
					c.Outcome("run: mismatch", 1)
					vs.add(r.Idx, r.Key, r.What, rcOf(r.Idx), 1)
				case "not-built":
					c.Outcome("run: not built (see build phase)", 1)
				default:
					c.Capped("harness failure in the run phase: " + trimTo(r.Err, 300))
				}
			},
			OnDeath: func(k int, desc, how, tail string) {
				idx := runList[k]
				vs.add(idx, "run-phase:"+deathKey(how, tail), fmt.Sprintf("worker died in the run phase (%s): %s\n%s", how, desc, trimTo(tail, 1500)), rcOf(idx), 1)
			},
		})
		c.Set("run_phase_cases", len(runList))
		c.Set("run_phase_cases_executed", ran)
	}

	// ---- phase B: build one representative per distinct output
	listFile := filepath.Join(dir, "list.json")
	data, _ := json.Marshal(reps)
	os.WriteFile(listFile, data, 0o644)
	built := map[int]bool{}
	buildCapped := false
	vetDiag := map[string]int{}
	onBuild := func(r record) {
		built[r.Idx] = true
		members := groups[info[r.Idx].hash]
		for _, l := range strings.Split(r.Vet, "\n") {
			if m := buildLnRE.FindStringSubmatch(strings.TrimSpace(l)); m != nil {
				vetDiag[m[2]+": "+slug(m[3], 8)] += len(members)
			}
		}
		switch r.St {
		case "ok":
			c.Outcome("built ok", int64(len(members)))
			c.Nontrivial(1)
			if c.SampleCount() < 8 {
				c.Sample(p.desc(r.Idx))
			}
		case "build-error":
			c.Outcome("build-error", int64(len(members)))
			c.Nontrivial(1)
			for _, k := range buildKeys(r.Err, caseName(r.Idx)) {
				vs.add(members[0], k, strings.ReplaceAll(trimTo(r.Err, 1500), caseName(r.Idx), "NAME"), rcOf(members[0]), len(members))
			}
		case "regen-failed":
			vs.add(r.Idx, "nondeterministic-generation:failed-on-second-run", r.Err, rcOf(r.Idx), 1)
		default:
			c.Capped("harness failure while building: " + trimTo(r.Err, 300))
		}
	}
	c.RunShards(core.ShardOpts{
		N:       6,
		Args:    []string{"build", "enum", listFile, strconv.FormatInt(c.Deadline.Unix(), 10)},
		Silence: 300 * time.Second,
		OnRecord: func(shard int, raw json.RawMessage) {
			var r record
			if err := json.Unmarshal(raw, &r); err != nil {
				c.Capped("unparsable worker record: " + err.Error())
				return
			}
			switch r.T {
			case "cap":
				buildCapped = true
			case "b":
				onBuild(r)
			}
		},
		OnDeath: func(k int, desc, how, tail string) {
			idx := reps[k]
			vs.add(idx, "build-phase:"+deathKey(how, tail), fmt.Sprintf("worker died in the build phase (%s): %s\n%s", how, desc, trimTo(tail, 1500)), rcOf(idx), 1)
		},
	})
	// completed prefix of the build phase
	firstUnbuilt := -1
	nb := 0
	for _, idx := range reps {
		if built[idx] {
			nb++
		} else if firstUnbuilt < 0 {
			firstUnbuilt = idx
		}
	}
	c.Set("distinct_outputs_built", nb)
	if len(vetDiag) > 0 {
		c.Set("go_vet_diagnostics_informational", vetDiag)
	}
	if firstUnbuilt >= 0 || buildCapped {
		level := ""
		if firstUnbuilt >= p.quickN {
			for k, s := range p.levels {
				if firstUnbuilt >= s {
					level = fmt.Sprintf(" (thorough level %d: %d parser options on/off)", k, k)
				}
			}
		}
		c.Capped(fmt.Sprintf("build phase: %d of %d distinct outputs built; every case below index %d of %d is built%s — budget", nb, len(reps), firstUnbuilt, len(p.cases), level))
	}
	vs.flush(c)
}

// replay re-runs one recorded case: generate in a worker, then build.
func replay(c *core.Ctx, raw json.RawMessage) error {
	var rc replayCase
	if err := json.Unmarshal(raw, &rc); err != nil {
		return err
	}
	dir, err := os.MkdirTemp("", "verif-c17-replay-")
	if err != nil {
		return err
	}
	defer os.RemoveAll(dir)
	srcFile := filepath.Join(dir, "cases.json")
	data, _ := json.Marshal([]fileCase{{Desc: rc.Grammar + " [" + strings.Join(rc.Options, ", ") + "]", Grammar: rc.Grammar, TM: rc.TM, Runs: rc.Runs}})
	os.WriteFile(srcFile, data, 0o644)
	listFile := filepath.Join(dir, "list.json")
	os.WriteFile(listFile, []byte("[0]"), 0o644)
	var fails []string
	ok := false
	c.RunShards(core.ShardOpts{
		N: 1, Args: []string{"gen", srcFile}, Confirm: 1,
		OnRecord: func(shard int, raw json.RawMessage) {
			var r record
			if json.Unmarshal(raw, &r) != nil || r.T != "g" {
				return
			}
			switch {
			case r.St == "ok":
				ok = true
			case r.Key != "":
				fails = append(fails, r.Key+": "+r.What)
			default:
				fmt.Println("note: the compiler rejects this case now:", r.What)
			}
		},
		OnDeath: func(idx int, desc, how, tail string) {
			fails = append(fails, deathKey(how, tail)+": worker died ("+how+")")
		},
	})
	if ok {
		c.RunShards(core.ShardOpts{
			N: 1, Args: []string{"build", srcFile, listFile}, Confirm: 1, Silence: 300 * time.Second,
			OnRecord: func(shard int, raw json.RawMessage) {
				var r record
				if json.Unmarshal(raw, &r) != nil || r.T != "b" {
					return
				}
				if r.St == "build-error" {
					fails = append(fails, strings.Join(buildKeys(r.Err, caseName(0)), ", ")+":\n"+r.Err)
				} else if r.St != "ok" {
					fails = append(fails, r.St+": "+r.Err)
				}
			},
			OnDeath: func(idx int, desc, how, tail string) {
				fails = append(fails, "build-phase:"+deathKey(how, tail))
			},
		})
	}
	opts := strings.Join(rc.Options, "\n")
	if ok && len(fails) == 0 && len(rc.Runs) > 0 && !strings.Contains(opts, "tokenStream = true") && !strings.Contains(opts, "genParser = false") && !strings.Contains(opts, "debugParser = true") {
		c.RunShards(core.ShardOpts{
			N: 1, Args: []string{"run", srcFile, listFile}, Confirm: 1, Silence: 300 * time.Second,
			OnRecord: func(shard int, raw json.RawMessage) {
				var r record
				if json.Unmarshal(raw, &r) != nil || r.T != "r" {
					return
				}
				if r.St == "mismatch" {
					fails = append(fails, r.Key+": "+r.What)
				} else if r.St != "ok" {
					fails = append(fails, "run phase: "+r.St+": "+r.Err)
				}
			},
			OnDeath: func(idx int, desc, how, tail string) {
				fails = append(fails, "run-phase:"+deathKey(how, tail))
			},
		})
	}
	if len(fails) > 0 {
		return fmt.Errorf("%s", strings.Join(fails, "\n"))
	}
	return nil
}
