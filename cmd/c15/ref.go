package main

// Reference semantics of token sets, written directly from the definitions.
//
// Rules considered: those of the nonterminals reachable from the first input that consumes eoi
// (none if there is no such input). A set(...) used inside a rule is a symbol that derives exactly
// one terminal of its value; the symbols mentioned in its expression (also through named sets)
// count as reachable.
//
//   t, first t, last t   = {t}
//   X                    = terminals occurring in the rules reachable from X
//   first X / last X     = terminals that can start / end a string derived from X
//   follow s / precede s = terminals that can come right after / before s in a sentential form
//                          (eoi is never a member: the implementation does not model the end marker)
//   ~e                   = universe \ e, universe = all terminals of the grammar
//   e | e, e & e         = union, intersection
//   named sets           = least solution of the (monotone) system; a complement that depends on
//                          itself has no meaning and must be rejected.

type refResult struct {
	termNames []string
	errorSym  int
	named     map[string]map[int]bool
	occ       []occurrence
	afterErr  map[int]bool
	cycle     bool
	cycleWhy  string
}

type occurrence struct {
	expr *sx
	val  map[int]bool
}

type rItem struct {
	sym int // terminal index, nonterminal = nT + index in spec.NTs, or pseudo symbol (>= nT+len(NTs))
}

type rRule struct {
	lhs int
	rhs []int
}

type eqNode struct {
	kind  byte // 'c' constant, 'u' union, 'i' intersection, 'n' complement
	kids  []int
	konst map[int]bool
	label string
}

type refBuilder struct {
	s        *spec
	nT       int
	symIndex map[string]int
	rules    []rRule // reachable rules only
	pseudo   map[int]*sx
	nullable map[int]bool
	nodes    []*eqNode
	atomMemo map[[2]int]int // (op, sym) -> node
	exprMemo map[*sx]int
	namedIdx map[string]int // named set -> node
}

const (
	opAny = iota
	opFirst
	opLast
	opFollow
	opPrecede
)

var opByName = map[string]int{"any": opAny, "first": opFirst, "last": opLast, "follow": opFollow, "precede": opPrecede}

func evalSpec(s *spec) *refResult {
	res := &refResult{errorSym: -1, named: map[string]map[int]bool{}}
	res.termNames = append([]string{"eoi", "invalid_token"}, s.Terms...)
	b := &refBuilder{s: s, nT: len(res.termNames), symIndex: map[string]int{}, pseudo: map[int]*sx{}, nullable: map[int]bool{},
		atomMemo: map[[2]int]int{}, exprMemo: map[*sx]int{}, namedIdx: map[string]int{}}
	for i, t := range res.termNames {
		b.symIndex[t] = i
		if t == "error" {
			res.errorSym = i
		}
	}
	for i, n := range s.NTs {
		b.symIndex[n] = b.nT + i
	}
	namedExpr := map[string]*sx{}
	for _, d := range s.Sets {
		if d.Name != "" {
			namedExpr[d.Name] = d.Expr
		}
	}

	// all rules, with pseudo symbols for set occurrences
	type fullRule struct {
		lhs int
		rhs []int
	}
	var all, lists []fullRule
	laTargets := map[int][]int{}
	next := b.nT + len(s.NTs)
	var occExprs []*sx
	var occSyms []int
	for _, r := range s.Rules {
		fr := fullRule{lhs: b.symIndex[r.LHS]}
		for _, it := range r.RHS {
			if it.Set != nil {
				b.pseudo[next] = it.Set
				occExprs = append(occExprs, it.Set)
				occSyms = append(occSyms, next)
				fr.rhs = append(fr.rhs, next)
				next++
			} else if it.Rep != "" {
				// A list is a fresh nonterminal L: L elems | elems (for "+"), L: L elems | %empty
				// (for "*"); with a separator: P: P sep elems | elems and, for "*", L: P | %empty.
				var el []int
				for _, n := range it.elems() {
					el = append(el, b.symIndex[n])
				}
				l := next
				next++
				switch {
				case it.Sep == "" && it.Rep == "+":
					lists = append(lists, fullRule{l, append([]int{l}, el...)}, fullRule{l, el})
				case it.Sep == "":
					lists = append(lists, fullRule{l, append([]int{l}, el...)}, fullRule{l, nil})
				default:
					p := l
					if it.Rep == "*" {
						p = next
						next++
						lists = append(lists, fullRule{l, []int{p}}, fullRule{l, nil})
					}
					lists = append(lists, fullRule{p, append([]int{p, b.symIndex[it.Sep]}, el...)}, fullRule{p, el})
				}
				fr.rhs = append(fr.rhs, l)
			} else if it.LA != nil {
				// A lookahead marker: derives the empty string, contributes no terminals, and makes
				// every nonterminal it names (negated or not) reachable.
				var targets []int
				for _, p := range it.LA {
					targets = append(targets, b.symIndex[p.NT])
				}
				laTargets[next] = targets
				b.nullable[next] = true
				fr.rhs = append(fr.rhs, next)
				next++
			} else {
				fr.rhs = append(fr.rhs, b.symIndex[it.Sym])
			}
		}
		all = append(all, fr)
	}
	all = append(all, lists...)

	// reachability from the first eoi input
	reach := map[int]bool{}
	var queue []int
	enqueue := func(sym int) {
		if sym >= b.nT && !reach[sym] {
			reach[sym] = true
			queue = append(queue, sym)
		}
	}
	for _, in := range s.Inputs {
		if !in.NoEoi {
			enqueue(b.symIndex[in.NT])
			break
		}
	}
	var mentions func(e *sx, seen map[*sx]bool, f func(sym int))
	mentions = func(e *sx, seen map[*sx]bool, f func(sym int)) {
		if seen[e] {
			return
		}
		seen[e] = true
		switch e.Op {
		case "name":
			if ne, ok := namedExpr[e.Sym]; ok {
				mentions(ne, seen, f)
			}
		case "any", "first", "last", "follow", "precede":
			f(b.symIndex[e.Sym])
		}
		for _, sub := range e.Sub {
			mentions(sub, seen, f)
		}
	}
	for len(queue) > 0 {
		x := queue[len(queue)-1]
		queue = queue[:len(queue)-1]
		if e, ok := b.pseudo[x]; ok {
			mentions(e, map[*sx]bool{}, enqueue)
			continue
		}
		if ts, ok := laTargets[x]; ok {
			for _, t := range ts {
				enqueue(t)
			}
			continue
		}
		for _, r := range all {
			if r.lhs != x {
				continue
			}
			for _, y := range r.rhs {
				enqueue(y)
			}
		}
	}
	for _, r := range all {
		if reach[r.lhs] {
			b.rules = append(b.rules, rRule{r.lhs, r.rhs})
		}
	}

	// nullable symbols (a set symbol derives exactly one terminal: never nullable)
	for changed := true; changed; {
		changed = false
		for _, r := range b.rules {
			if b.nullable[r.lhs] {
				continue
			}
			ok := true
			for _, y := range r.rhs {
				if !b.nullable[y] {
					ok = false
				}
			}
			if ok {
				b.nullable[r.lhs] = true
				changed = true
			}
		}
	}

	// equations: named sets first (so that references to later sets resolve), then every expression
	for _, d := range s.Sets {
		if d.Name != "" {
			b.namedIdx[d.Name] = b.newNode(&eqNode{kind: 'u', label: d.Name})
		}
	}
	var anon []int
	for _, d := range s.Sets {
		n := b.exprNode(d.Expr)
		if d.Name != "" {
			b.nodes[b.namedIdx[d.Name]].kids = []int{n}
		} else {
			anon = append(anon, n)
		}
	}
	var occNodes []int
	for i := range occExprs {
		occNodes = append(occNodes, b.atomNode(opAny, occSyms[i]))
	}
	afterErrNode := -1
	if res.errorSym >= 0 {
		afterErrNode = b.atomNode(opFollow, res.errorSym)
	}

	vals, cyc, why := b.solve()
	if cyc {
		res.cycle, res.cycleWhy = true, why
		return res
	}
	for name, n := range b.namedIdx {
		res.named[name] = vals[n]
	}
	// occurrences in unreachable rules still become setof_ nonterminals with the same value
	for i, n := range occNodes {
		res.occ = append(res.occ, occurrence{expr: occExprs[i], val: vals[n]})
	}
	if afterErrNode >= 0 {
		res.afterErr = vals[afterErrNode]
	}
	return res
}

func (b *refBuilder) newNode(n *eqNode) int {
	b.nodes = append(b.nodes, n)
	return len(b.nodes) - 1
}

func (b *refBuilder) exprNode(e *sx) int {
	if n, ok := b.exprMemo[e]; ok {
		return n
	}
	var id int
	switch e.Op {
	case "name":
		if n, ok := b.namedIdx[e.Sym]; ok {
			id = n
		} else {
			// unknown name: not generated by this check
			id = b.newNode(&eqNode{kind: 'c', konst: map[int]bool{}})
		}
		b.exprMemo[e] = id
		return id
	case "any", "first", "last", "follow", "precede":
		id = b.atomNode(opByName[e.Op], b.symIndex[e.Sym])
		b.exprMemo[e] = id
		return id
	case "not":
		id = b.newNode(&eqNode{kind: 'n', label: e.String()})
	case "or":
		id = b.newNode(&eqNode{kind: 'u'})
	case "and":
		id = b.newNode(&eqNode{kind: 'i'})
	}
	b.exprMemo[e] = id
	for _, sub := range e.Sub {
		k := b.exprNode(sub)
		b.nodes[id].kids = append(b.nodes[id].kids, k)
	}
	return id
}

func (b *refBuilder) atomNode(op, sym int) int {
	key := [2]int{op, sym}
	if n, ok := b.atomMemo[key]; ok {
		return n
	}
	if sym < b.nT && (op == opAny || op == opFirst || op == opLast) {
		id := b.newNode(&eqNode{kind: 'c', konst: map[int]bool{sym: true}})
		b.atomMemo[key] = id
		return id
	}
	if e, ok := b.pseudo[sym]; ok && (op == opAny || op == opFirst || op == opLast) {
		id := b.newNode(&eqNode{kind: 'u'})
		b.atomMemo[key] = id
		b.nodes[id].kids = []int{b.exprNode(e)}
		return id
	}
	id := b.newNode(&eqNode{kind: 'u'})
	b.atomMemo[key] = id
	add := func(k int) { b.nodes[id].kids = append(b.nodes[id].kids, k) }
	switch op {
	case opAny:
		for _, r := range b.rules {
			if r.lhs == sym {
				for _, y := range r.rhs {
					add(b.atomNode(opAny, y))
				}
			}
		}
	case opFirst:
		for _, r := range b.rules {
			if r.lhs != sym {
				continue
			}
			for _, y := range r.rhs {
				add(b.atomNode(opFirst, y))
				if !b.nullable[y] {
					break
				}
			}
		}
	case opLast:
		for _, r := range b.rules {
			if r.lhs != sym {
				continue
			}
			for i := len(r.rhs) - 1; i >= 0; i-- {
				add(b.atomNode(opLast, r.rhs[i]))
				if !b.nullable[r.rhs[i]] {
					break
				}
			}
		}
	case opFollow:
		for _, r := range b.rules {
			for pos, y := range r.rhs {
				if y != sym {
					continue
				}
				closed := false
				for i := pos + 1; i < len(r.rhs); i++ {
					add(b.atomNode(opFirst, r.rhs[i]))
					if !b.nullable[r.rhs[i]] {
						closed = true
						break
					}
				}
				if !closed {
					add(b.atomNode(opFollow, r.lhs))
				}
			}
		}
	case opPrecede:
		for _, r := range b.rules {
			for pos, y := range r.rhs {
				if y != sym {
					continue
				}
				closed := false
				for i := pos - 1; i >= 0; i-- {
					add(b.atomNode(opLast, r.rhs[i]))
					if !b.nullable[r.rhs[i]] {
						closed = true
						break
					}
				}
				if !closed {
					add(b.atomNode(opPrecede, r.lhs))
				}
			}
		}
	}
	return id
}

// solve computes the least solution. Complements are resolved in dependency order; a complement
// that can reach itself is a cycle.
func (b *refBuilder) solve() (vals []map[int]bool, cycle bool, why string) {
	n := len(b.nodes)
	// complements reachable from each node (through any edges)
	reachFrom := func(start int) map[int]bool {
		seen := map[int]bool{}
		stack := []int{start}
		for len(stack) > 0 {
			x := stack[len(stack)-1]
			stack = stack[:len(stack)-1]
			for _, k := range b.nodes[x].kids {
				if !seen[k] {
					seen[k] = true
					stack = append(stack, k)
				}
			}
		}
		return seen
	}
	var compl []int
	deps := map[int]map[int]bool{} // complement -> complements its operand depends on
	for i, nd := range b.nodes {
		if nd.kind != 'n' {
			continue
		}
		compl = append(compl, i)
		r := reachFrom(i)
		if r[i] {
			return nil, true, nd.label
		}
		deps[i] = map[int]bool{}
		for k := range r {
			if b.nodes[k].kind == 'n' {
				deps[i][k] = true
			}
		}
	}
	universe := map[int]bool{}
	for t := 0; t < b.nT; t++ {
		universe[t] = true
	}
	resolved := map[int]map[int]bool{}
	kleene := func() []map[int]bool {
		v := make([]map[int]bool, n)
		for i := range v {
			v[i] = map[int]bool{}
		}
		for changed := true; changed; {
			changed = false
			for i, nd := range b.nodes {
				var nv map[int]bool
				switch nd.kind {
				case 'c':
					nv = nd.konst
				case 'n':
					nv = resolved[i] // nil (= empty) while unresolved
				case 'u':
					nv = map[int]bool{}
					for _, k := range nd.kids {
						for t := range v[k] {
							nv[t] = true
						}
					}
				case 'i':
					nv = map[int]bool{}
					for t := range universe {
						in := true
						for _, k := range nd.kids {
							if !v[k][t] {
								in = false
							}
						}
						if in {
							nv[t] = true
						}
					}
				}
				for t := range nv {
					if !v[i][t] {
						v[i][t] = true
						changed = true
					}
				}
			}
		}
		return v
	}
	for len(resolved) < len(compl) {
		v := kleene()
		progress := false
		var ready []int
		for _, cnode := range compl {
			if _, done := resolved[cnode]; done {
				continue
			}
			ok := true
			for d := range deps[cnode] {
				if _, have := resolved[d]; !have {
					ok = false
				}
			}
			if ok {
				ready = append(ready, cnode)
			}
		}
		// v was computed with every dependency of the ready complements final, so their operands are final
		for _, cnode := range ready {
			val := map[int]bool{}
			for t := range universe {
				if !v[b.nodes[cnode].kids[0]][t] {
					val[t] = true
				}
			}
			resolved[cnode] = val
			progress = true
		}
		if !progress {
			return nil, true, "unresolvable complements"
		}
	}
	return kleene(), false, ""
}
