// C15: token sets equal their fixpoint definitions.
//
// Enumerated, phase A: every reduced grammar of a tiny gramenum scope x input configurations (first
// input eoi, a second input, the eoi input listed second, no eoi input at all, another eoi input
// first) x {no error terminal, last terminal renamed to `error`} x every atom (t, first/last t,
// follow t, precede t, X, first X, last X, follow X, precede X), its complement and a fixed family of
// compounds built from the grammar's atoms; 20 `%generate` directives per grammar text, interleaved
// with `%assert`. Phase B: hand-written showcase grammars x every set expression with at most two
// literals (atom or ~atom), plain and complemented, and every expression with three literals over a
// reduced literal alphabet. Phase C: systems of up to three `%generate` sets that refer to each other
// and to themselves. Phase D: set(...) used inside a rule (its value is read from the rules of the
// synthesized setof_ nonterminal), including sets that depend on the nonterminal they are used in.
//
// Oracle (ref.go): textbook fixpoints written from the definitions over the rules reachable from the
// FIRST eoi input, union/intersection/complement on map[int]bool over the terminal universe; a
// complement that depends on itself must be rejected ("set complement cannot transitively depend on
// itself"); afterErr = follow(error) and Parser.IsRecovering = afterErr non-empty.
//
// Observed at grammar.Grammar.Sets (named sets incl. afterErr), grammar.Parser.Rules (setof_
// nonterminals) and the error list of compiler.Compile.
package main

import (
	"context"
	"encoding/json"
	"fmt"
	"log"
	"os"
	"runtime"
	"sort"
	"strings"
	"sync"

	"github.com/inspirer/textmapper/compiler"
	"github.com/inspirer/textmapper/status"

	"verif/internal/core"
	"verif/internal/gramenum"
)

func main() { core.Main("C15", "exploration", run, replay, nil) }

// ---------- grammar specs and their text

type sx struct {
	Op  string `json:"op"` // any first last follow precede | or and not | name
	Sym string `json:"sym,omitempty"`
	Sub []*sx  `json:"sub,omitempty"`
}

func atom(op, sym string) *sx { return &sx{Op: op, Sym: sym} }
func not(e *sx) *sx           { return &sx{Op: "not", Sub: []*sx{e}} }
func or(a, b *sx) *sx         { return &sx{Op: "or", Sub: []*sx{a, b}} }
func and(a, b *sx) *sx        { return &sx{Op: "and", Sub: []*sx{a, b}} }
func nameRef(n string) *sx    { return &sx{Op: "name", Sym: n} }

func (e *sx) String() string {
	switch e.Op {
	case "any", "name":
		return e.Sym
	case "first", "last", "follow", "precede":
		return e.Op + " " + e.Sym
	case "not":
		return "~" + e.Sub[0].prim()
	case "or":
		return e.Sub[0].operand() + " | " + e.Sub[1].operand()
	case "and":
		return e.Sub[0].operand() + " & " + e.Sub[1].operand()
	}
	panic("op " + e.Op)
}

func (e *sx) operand() string {
	if e.Op == "or" || e.Op == "and" {
		return "(" + e.String() + ")"
	}
	return e.String()
}

func (e *sx) prim() string {
	if e.Op == "or" || e.Op == "and" {
		return "(" + e.String() + ")"
	}
	return e.String() // ~~x is a valid setPrimary
}

type lapred struct {
	NT  string `json:"nt"`
	Not bool   `json:"not,omitempty"`
}

type sitem struct {
	Sym string   `json:"sym,omitempty"`
	Set *sx      `json:"set,omitempty"`
	LA  []lapred `json:"la,omitempty"` // (?= X & !Y ...)

	// A list: Seq (or Sym) repeated, Rep = "+" or "*", optionally separated by the terminal Sep.
	Rep string   `json:"rep,omitempty"`
	Seq []string `json:"seq,omitempty"`
	Sep string   `json:"sep,omitempty"`
}

func (it sitem) elems() []string {
	if len(it.Seq) > 0 {
		return it.Seq
	}
	return []string{it.Sym}
}

func (it sitem) listText() string {
	el := it.elems()
	if it.Sep != "" {
		return "(" + strings.Join(el, " ") + " separator " + it.Sep + ")" + it.Rep
	}
	if len(el) == 1 {
		return el[0] + it.Rep
	}
	return "(" + strings.Join(el, " ") + ")" + it.Rep
}

func (it sitem) laText() string {
	var ps []string
	for _, p := range it.LA {
		if p.Not {
			ps = append(ps, "!"+p.NT)
		} else {
			ps = append(ps, p.NT)
		}
	}
	return "(?= " + strings.Join(ps, " & ") + ")"
}

type srule struct {
	LHS string  `json:"lhs"`
	RHS []sitem `json:"rhs"`
}

type sinput struct {
	NT    string `json:"nt"`
	NoEoi bool   `json:"noeoi,omitempty"`
}

type sdef struct {
	Name   string `json:"name,omitempty"`   // %generate Name = set(Expr);
	Assert string `json:"assert,omitempty"` // empty | nonempty: %assert <Assert> set(Expr);
	Expr   *sx    `json:"expr"`
}

type spec struct {
	Terms  []string `json:"terms"` // lexer tokens in declaration order (may contain "error")
	NTs    []string `json:"nts"`   // in order of definition
	Rules  []srule  `json:"rules"`
	Inputs []sinput `json:"inputs"`
	Sets   []sdef   `json:"sets"`
	Class  string   `json:"class,omitempty"` // enumeration phase, used in violation keys
}

func (s *spec) text() string {
	var sb strings.Builder
	sb.WriteString("language x(go);\n\n:: lexer\n\n")
	for _, t := range s.Terms {
		if t == "error" {
			sb.WriteString("error:\n")
		} else {
			fmt.Fprintf(&sb, "%s: /%s/\n", t, t[1:])
		}
	}
	sb.WriteString("\n:: parser\n\n%input ")
	for i, in := range s.Inputs {
		if i > 0 {
			sb.WriteString(", ")
		}
		sb.WriteString(in.NT)
		if in.NoEoi {
			sb.WriteString(" no-eoi")
		}
	}
	sb.WriteString(";\n\n")
	for _, d := range s.Sets {
		if d.Assert != "" {
			fmt.Fprintf(&sb, "%%assert %s set(%s);\n", d.Assert, d.Expr)
		} else {
			fmt.Fprintf(&sb, "%%generate %s = set(%s);\n", d.Name, d.Expr)
		}
	}
	sb.WriteString("\n")
	for _, nt := range s.NTs {
		fmt.Fprintf(&sb, "%s :\n", nt)
		first := true
		for _, r := range s.Rules {
			if r.LHS != nt {
				continue
			}
			if first {
				sb.WriteString("    ")
				first = false
			} else {
				sb.WriteString("  | ")
			}
			if len(r.RHS) == 0 {
				sb.WriteString("%empty")
			}
			for j, it := range r.RHS {
				if j > 0 {
					sb.WriteString(" ")
				}
				if it.Set != nil {
					fmt.Fprintf(&sb, "set(%s)", it.Set)
				} else if it.LA != nil {
					sb.WriteString(it.laText())
				} else if it.Rep != "" {
					sb.WriteString(it.listText())
				} else {
					sb.WriteString(it.Sym)
				}
			}
			sb.WriteString("\n")
		}
		sb.WriteString(";\n\n")
	}
	return sb.String()
}

// ---------- observed side

type observed struct {
	termNames   []string
	sets        map[string][]int // named sets (incl. afterErr)
	setOrder    []string
	setofRules  map[string][][]int // rules of synthesized setof_* nonterminals, by name
	cycleErr    bool               // "set complement cannot transitively depend on itself"
	emptySetErr bool               // an in-rule set was rejected because it has no terminals
	otherErrs   []string           // errors that are neither conflicts nor the cycle error
	conflicts   int
	recovering  bool
	errorSym    int
	haveParser  bool
}

func observe(text string) (*observed, error) {
	o := &observed{sets: map[string][]int{}, setofRules: map[string][][]int{}}
	var g0 any
	err := core.Guard(func() {
		g, cerr := compiler.Compile(context.Background(), "c15.tm", text, compiler.Params{CheckOnly: false})
		g0 = g
		for _, e := range status.FromError(cerr) {
			switch {
			case strings.Contains(e.Msg, "set complement cannot transitively depend on itself"):
				o.cycleErr = true
			case strings.Contains(e.Msg, "token set is empty"):
				o.emptySetErr = true
			case strings.Contains(e.Msg, "conflict"):
				o.conflicts++
			default:
				o.otherErrs = append(o.otherErrs, e.Msg)
			}
		}
		if g == nil {
			return
		}
		for i := 0; i < g.NumTokens && i < len(g.Syms); i++ {
			o.termNames = append(o.termNames, g.Syms[i].Name)
		}
		for _, s := range g.Sets {
			o.sets[s.Name] = append([]int{}, s.Terminals...)
			o.setOrder = append(o.setOrder, s.Name)
		}
		if g.Parser != nil {
			o.haveParser = len(g.Parser.Rules) > 0
			o.recovering = g.Parser.IsRecovering
			o.errorSym = g.Parser.ErrorSymbol
			for _, r := range g.Parser.Rules {
				name := g.Syms[r.LHS].Name
				if !strings.HasPrefix(name, "setof_") {
					continue
				}
				var rhs []int
				for _, s := range r.RHS {
					if !s.IsStateMarker() {
						rhs = append(rhs, int(s))
					}
				}
				o.setofRules[name] = append(o.setofRules[name], rhs)
			}
		}
	})
	_ = g0
	return o, err
}

// ---------- comparison

func fmtSet(names []string, s map[int]bool) string {
	var idx []int
	for t := range s {
		idx = append(idx, t)
	}
	sort.Ints(idx)
	var parts []string
	for _, t := range idx {
		parts = append(parts, names[t])
	}
	return "{" + strings.Join(parts, " ") + "}"
}

func toSet(l []int) map[int]bool {
	m := map[int]bool{}
	for _, t := range l {
		m[t] = true
	}
	return m
}

func sameSet(a, b map[int]bool) bool {
	if len(a) != len(b) {
		return false
	}
	for k := range a {
		if !b[k] {
			return false
		}
	}
	return true
}

// classify gives the stable class of a set expression for violation keys.
func classify(e *sx) string {
	has := map[string]bool{}
	var walk func(x *sx, underNot bool)
	walk = func(x *sx, underNot bool) {
		switch x.Op {
		case "not":
			has["complement"] = true
			if x.Sub[0].Op == "not" {
				has["double-complement"] = true
			}
		case "or":
			has["union"] = true
		case "and":
			has["intersection"] = true
			if x.Sub[0].Op == "not" && x.Sub[1].Op == "not" {
				has["intersection-of-complements"] = true
			} else if x.Sub[0].Op == "not" || x.Sub[1].Op == "not" {
				has["intersection-with-complement"] = true
			}
		case "name":
			has["named"] = true
		default:
			has[x.Op] = true
		}
		for _, s := range x.Sub {
			walk(s, x.Op == "not")
		}
	}
	walk(e, false)
	if has["intersection-of-complements"] {
		return "intersection-of-complements"
	}
	if has["intersection-with-complement"] {
		return "intersection-with-complement"
	}
	var ks []string
	for k := range has {
		ks = append(ks, k)
	}
	sort.Strings(ks)
	return strings.Join(ks, "+")
}

type verdict struct {
	key, what string
	nonEmpty  []string // printed values of named sets that are neither empty nor everything
	cycle     bool
	conflicts bool
}

// bareAliasProblem reports a `%generate A = set(B);` whose right-hand side is just the name of a set
// declared at the same or a later position (see the finding in the final report).
func bareAliasProblem(s *spec) string {
	pos := map[string]int{}
	for i, d := range s.Sets {
		if d.Name != "" {
			pos[d.Name] = i
		}
	}
	kind := ""
	for i, d := range s.Sets {
		e := d.Expr
		if e.Op == "name" {
			if j, ok := pos[e.Sym]; ok && j > i {
				return "later"
			} else if ok && j == i {
				kind = "itself"
			}
		}
	}
	return kind
}

// sharers is the largest number of named sets that mention one and the same named set directly.
func sharers(s *spec) int {
	count := map[string]int{}
	for _, d := range s.Sets {
		seen := map[string]bool{}
		var walk func(e *sx)
		walk = func(e *sx) {
			if e.Op == "name" && !seen[e.Sym] {
				seen[e.Sym] = true
				count[e.Sym]++
			}
			for _, sub := range e.Sub {
				walk(sub)
			}
		}
		walk(d.Expr)
	}
	m := 0
	for _, n := range count {
		if n > m {
			m = n
		}
	}
	return m
}

func check(s *spec) (v verdict) {
	text := s.text()
	ref := evalSpec(s)
	o, perr := observe(text)
	if perr != nil {
		v.key = "panic:" + core.PanicSite(perr)
		if m := fatalMessage(perr); m != "" {
			v.key = "fatal:" + m
		}
		v.what = perr.Error()
		return
	}
	cls := s.Class
	if cls == "" {
		cls = "replay"
	}
	fail := func(site, class, format string, args ...any) {
		if v.key != "" {
			return
		}
		if k := bareAliasProblem(s); k != "" {
			// One root cause (compiler/syntax.go collectDirectives copies the still empty
			// placeholder of the referenced set); everything downstream of it is reported under
			// these two keys.
			site, class = "generate", "bare-alias:of-a-later-set"
			if k == "itself" {
				class = "bare-alias:of-itself"
			}
		}
		if s.Class == "F" && site == "generate" && strings.HasPrefix(class, "value") {
			// phase F: a named set with an atom over a NONTERMINAL is referenced from other named
			// sets while list extraction permutes the nonterminals
			class = "shared-set-nonterminal-atom:" + fmt.Sprint(sharers(s)) + "-referrers"
		}
		v.key = site + ":" + class
		v.what = fmt.Sprintf(format, args...) + "\n--- grammar ---\n" + text
	}
	if len(o.otherErrs) > 0 {
		fail("compile", "unexpected-error", "unexpected compile error: %s", o.otherErrs[0])
		return
	}
	// terminal numbering
	want := ref.termNames
	if len(o.termNames) != len(want) {
		fail("compile", "terminal-numbering", "terminals %v, expected %v", o.termNames, want)
		return
	}
	for i := range want {
		if o.termNames[i] != want[i] {
			fail("compile", "terminal-numbering", "terminals %v, expected %v", o.termNames, want)
			return
		}
	}
	v.cycle = ref.cycle
	v.conflicts = o.conflicts > 0
	if ref.cycle != o.cycleErr {
		if ref.cycle {
			fail("complement-cycle", "not-rejected", "a complement depends on itself (%s) but the grammar was accepted", ref.cycleWhy)
		} else {
			fail("complement-cycle", "spurious", "no complement depends on itself but the compiler reported one")
		}
		return
	}
	if ref.cycle {
		return
	}
	// A set used inside a rule stands for a choice of its terminals; without terminals it matches
	// nothing. Rejecting such a grammar is fine, a nonterminal without rules is fine, an %empty rule
	// (the rule then matches with the set skipped) is not.
	emptyOcc := -1
	for i, oc := range ref.occ {
		if len(oc.val) == 0 && emptyOcc < 0 {
			emptyOcc = i
		}
	}
	if o.emptySetErr {
		if emptyOcc < 0 {
			fail("set-in-rule", "spurious-empty-set-error", "an in-rule set was rejected as empty but every in-rule set has terminals")
		}
		v.cycle = true // counted with the rejected texts
		return
	}
	if emptyOcc >= 0 && o.haveParser {
		for name, rules := range o.setofRules {
			for _, rhs := range rules {
				if len(rhs) == 0 {
					fail("set-in-rule", "empty-set-derives-empty-string", "set(%s) inside a rule has no terminals, yet %s gets an %%empty rule: the rule matches with the set skipped (and first/follow treat the set as not nullable)", ref.occ[emptyOcc].expr, name)
					return
				}
			}
		}
	}
	// named sets
	for _, d := range s.Sets {
		if d.Name == "" {
			continue
		}
		got, ok := o.sets[d.Name]
		if !ok {
			fail("generate", "missing", "named set %s is not in Grammar.Sets", d.Name)
			return
		}
		gs := toSet(got)
		ws := ref.named[d.Name]
		if len(gs) != len(got) {
			fail("generate", "duplicates:"+classify(d.Expr), "named set %s = set(%s) lists a terminal twice: %v", d.Name, d.Expr, got)
			return
		}
		if !sort.IntsAreSorted(got) {
			fail("generate", "unsorted:"+classify(d.Expr), "named set %s = set(%s) is not in terminal order: %v", d.Name, d.Expr, got)
			return
		}
		if !sameSet(gs, ws) {
			fail("generate", "value:"+classify(d.Expr), "%%generate %s = set(%s): got %s, the definitions give %s", d.Name, d.Expr, fmtSet(want, gs), fmtSet(want, ws))
			return
		}
		if len(ws) > 0 && len(ws) < len(want) {
			v.nonEmpty = append(v.nonEmpty, d.Expr.String()+"="+fmtSet(want, ws))
		}
	}
	// afterErr
	if ref.errorSym >= 0 {
		got, ok := o.sets["afterErr"]
		if !ok {
			fail("afterErr", "missing", "no afterErr set although `error` is a terminal")
			return
		}
		if !sameSet(toSet(got), ref.afterErr) {
			fail("afterErr", "value", "afterErr = %s, follow(error) = %s", fmtSet(want, toSet(got)), fmtSet(want, ref.afterErr))
			return
		}
		if o.haveParser && (o.recovering != (len(ref.afterErr) > 0) || o.errorSym != ref.errorSym) {
			fail("afterErr", "recovering-flag", "IsRecovering=%v ErrorSymbol=%d, expected %v %d", o.recovering, o.errorSym, len(ref.afterErr) > 0, ref.errorSym)
			return
		}
	} else if _, ok := o.sets["afterErr"]; ok {
		fail("afterErr", "spurious", "afterErr set without an error terminal")
		return
	}
	// sets used inside rules
	if len(ref.occ) > 0 && o.haveParser {
		// every occurrence value must be the rule set of some setof_ nonterminal and vice versa
		var gotVals, wantVals []string
		for _, rules := range o.setofRules {
			val := map[int]bool{}
			for _, rhs := range rules {
				if len(rhs) == 1 {
					val[rhs[0]] = true
				} else if len(rhs) != 0 {
					fail("set-in-rule", "shape", "a setof_ nonterminal has a rule with %d symbols", len(rhs))
					return
				}
			}
			gotVals = append(gotVals, fmtSet(want, val))
		}
		for _, oc := range ref.occ {
			wantVals = append(wantVals, fmtSet(want, oc.val))
		}
		sort.Strings(gotVals)
		sort.Strings(wantVals)
		// equal occurrences may share one nonterminal: compare as sets of values
		if strings.Join(uniq(gotVals), ";") != strings.Join(uniq(wantVals), ";") {
			fail("set-in-rule", "value:"+classify(ref.occ[0].expr), "set(...) inside a rule: setof_ nonterminals derive %v, the definitions give %v", gotVals, wantVals)
			return
		}
	}
	return
}

func uniq(l []string) []string {
	var out []string
	for i, s := range l {
		if i == 0 || s != l[i-1] {
			out = append(out, s)
		}
	}
	return out
}

// ---------- enumeration

func gramSpec(g *gramenum.Gram, inputs []gramenum.Input, withError bool) *spec {
	s := &spec{}
	for t := 1; t <= g.T; t++ {
		name := g.SymName(t)
		if withError && t == g.T {
			name = "error"
		}
		s.Terms = append(s.Terms, name)
	}
	symName := func(x int) string {
		if x <= g.T {
			return s.Terms[x-1]
		}
		return g.SymName(x)
	}
	for _, nt := range g.NTOrder() {
		s.NTs = append(s.NTs, g.SymName(nt))
	}
	for _, r := range g.Rules {
		sr := srule{LHS: g.SymName(r.LHS)}
		for _, x := range r.RHS {
			sr.RHS = append(sr.RHS, sitem{Sym: symName(x)})
		}
		s.Rules = append(s.Rules, sr)
	}
	for _, in := range inputs {
		s.Inputs = append(s.Inputs, sinput{NT: g.SymName(in.NT), NoEoi: !in.Eoi})
	}
	return s
}

func atomsOf(s *spec) []*sx {
	var out []*sx
	for i, t := range s.Terms {
		out = append(out, atom("any", t), atom("follow", t), atom("precede", t))
		if i == 0 {
			out = append(out, atom("first", t), atom("last", t))
		}
	}
	for _, n := range s.NTs {
		for _, op := range []string{"any", "first", "last", "follow", "precede"} {
			out = append(out, atom(op, n))
		}
	}
	return out
}

// compoundsOf: a fixed family of 2- and 3-atom expressions over the grammar's atoms.
func compoundsOf(at []*sx) []*sx {
	var out []*sx
	n := len(at)
	for i := 0; i < n; i++ {
		a, b, c := at[i], at[(i+1)%n], at[(i+5)%n]
		switch i % 6 {
		case 0:
			out = append(out, and(not(a), not(b)), or(a, c))
		case 1:
			out = append(out, and(a, not(c)), not(or(a, b)))
		case 2:
			out = append(out, and(not(c), not(a)), and(or(a, b), c))
		case 3:
			out = append(out, or(and(a, b), not(c)), and(a, c))
		case 4:
			out = append(out, and(and(not(a), not(b)), not(c)), not(not(a)))
		case 5:
			out = append(out, or(not(a), and(b, c)), and(not(or(a, b)), not(c)))
		}
	}
	return out
}

// batches splits expressions into grammar texts of 20 %generate directives; every 7th directive is
// followed by an %assert (which occupies a slot in the model's set list but is not a named set).
func withSets(base *spec, exprs []*sx, class string) []*spec {
	var out []*spec
	for lo := 0; lo < len(exprs); lo += 20 {
		hi := lo + 20
		if hi > len(exprs) {
			hi = len(exprs)
		}
		s := *base
		s.Class = class
		s.Sets = nil
		for i, e := range exprs[lo:hi] {
			s.Sets = append(s.Sets, sdef{Name: fmt.Sprintf("s%d", i), Expr: e})
			if i%7 == 3 {
				kind := "empty"
				if i%2 == 1 {
					kind = "nonempty"
				}
				s.Sets = append(s.Sets, sdef{Assert: kind, Expr: e})
			}
		}
		out = append(out, &s)
	}
	return out
}

func showcase() []*spec {
	mk := func(terms, nts []string, inputs []sinput, rules ...string) *spec {
		s := &spec{Terms: terms, NTs: nts, Inputs: inputs}
		for _, r := range rules {
			f := strings.Fields(r)
			sr := srule{LHS: f[0]}
			for _, x := range f[2:] {
				sr.RHS = append(sr.RHS, sitem{Sym: x})
			}
			s.Rules = append(s.Rules, sr)
		}
		return s
	}
	abcd := []string{"ta", "tb", "tc", "td"}
	return []*spec{
		// nullable chains in the middle and at both ends
		mk(abcd, []string{"X1", "X2", "X3"}, []sinput{{NT: "X1"}},
			"X1 : X2 X3 td", "X1 : ta X1 X2", "X2 : tb", "X2 :", "X3 : tc X2", "X3 :"),
		// error recovery, left recursion, a second (no-eoi) input listed first, X3 unreachable from X1
		mk([]string{"ta", "tb", "tc", "error"}, []string{"X1", "X2", "X3"}, []sinput{{NT: "X3", NoEoi: true}, {NT: "X1"}},
			"X1 : X1 X2", "X1 : X2", "X2 : ta tb", "X2 : error tc", "X2 : error", "X3 : tc X1 ta"),
		// everything nullable
		mk(abcd, []string{"X1", "X2"}, []sinput{{NT: "X1"}},
			"X1 : X2 X2", "X1 : ta", "X2 : tb X1 tc", "X2 :", "X2 : td"),
	}
}

// lookaheadGrammars: X2 and X3 are reachable from the input X1 only through a lookahead predicate
// (plain, negated, as either conjunct), placed at the start, in the middle or at the end of a rule;
// tc occurs only inside them. X3 is used by the predicate directly or only through X2.
func lookaheadGrammars() []*spec {
	la := func(ps ...lapred) sitem { return sitem{LA: ps} }
	p, n := func(nt string) lapred { return lapred{NT: nt} }, func(nt string) lapred { return lapred{NT: nt, Not: true} }
	preds := []sitem{
		la(p("X2")), la(n("X2")), la(p("X3"), n("X2")), la(n("X2"), p("X3")), la(n("X2"), n("X3")), la(p("X2"), p("X3")),
		la(n("X3")), la(p("X3")),
	}
	x2Bodies := [][]string{
		{"X2 : tb tc", "X2 : X2 ta"},
		{"X2 : tb X3 tc", "X2 :"},
		{"X2 : X3 X3 tb"},
	}
	var out []*spec
	for _, pred := range preds {
		for pos := 0; pos < 3; pos++ {
			for _, x2 := range x2Bodies {
				for _, second := range []bool{false, true} {
					s := &spec{Terms: []string{"ta", "tb", "tc", "td"}, NTs: []string{"X1", "X2", "X3"}, Inputs: []sinput{{NT: "X1"}}}
					if second {
						s.Inputs = []sinput{{NT: "X3", NoEoi: true}, {NT: "X1"}}
					}
					items := []sitem{{Sym: "ta"}, {Sym: "td"}}
					var rhs []sitem
					rhs = append(rhs, items[:pos]...)
					rhs = append(rhs, pred)
					rhs = append(rhs, items[pos:]...)
					s.Rules = append(s.Rules, srule{LHS: "X1", RHS: rhs}, srule{LHS: "X1", RHS: []sitem{{Sym: "X1"}, {Sym: "tb"}}})
					for _, r := range append(append([]string{}, x2...), "X3 : tc ta", "X3 : td") {
						f := strings.Fields(r)
						sr := srule{LHS: f[0]}
						for _, x := range f[2:] {
							sr.RHS = append(sr.RHS, sitem{Sym: x})
						}
						s.Rules = append(s.Rules, sr)
					}
					out = append(out, s)
				}
			}
		}
	}
	return out
}

// listHosts: grammars with lists (ta+, (tb ta)*, (ta separator tb)*) whose extracted nonterminals
// (Ta_list, input$1, Ta_list_Tb_separated and ...opt) sort before, between and after the declared ones.
func listHosts() []*spec {
	mk := func(nts []string, rules ...srule) *spec {
		return &spec{Terms: []string{"ta", "tb", "tc", "td"}, NTs: nts, Inputs: []sinput{{NT: nts[0]}}, Rules: rules}
	}
	sym := func(n string) sitem { return sitem{Sym: n} }
	r := func(lhs string, items ...sitem) srule { return srule{LHS: lhs, RHS: items} }
	return []*spec{
		mk([]string{"input", "zz", "yy"},
			r("input", sym("zz"), sitem{Sym: "ta", Rep: "+"}, sym("yy")), r("zz", sym("tb")), r("yy", sym("tc"))),
		mk([]string{"Aa", "Mm", "zz"},
			r("Aa", sym("zz"), sitem{Seq: []string{"tb", "ta"}, Rep: "*"}, sym("Mm")), r("Aa", sym("Aa"), sym("td")),
			r("Mm", sym("tc"), sym("zz")), r("zz", sym("tb")), r("zz")),
		mk([]string{"zz", "input", "Aa"},
			r("zz", sym("Aa"), sitem{Sym: "ta", Rep: "*", Sep: "tb"}, sym("input")), r("input", sitem{Sym: "tc", Rep: "+"}, sym("Aa")), r("input", sym("td")),
			r("Aa", sym("tb"), sym("zz")), r("Aa")),
	}
}

func literals(at []*sx) []*sx {
	var out []*sx
	for _, a := range at {
		out = append(out, a, not(a))
	}
	return out
}

// fatalTrap turns log.Fatal inside the code under test into a panic that core.Guard recovers: the
// logger writes the message before it calls os.Exit, so a writer that panics keeps the process (and
// the enumeration) alive. Expansion warnings (log.Printf) pass through silently.
type fatalTrap struct{}

func (fatalTrap) Write(p []byte) (int, error) {
	if strings.Contains(string(p), "WARNING") {
		return len(p), nil
	}
	panic("log.Fatal: " + strings.TrimSpace(string(p)))
}

func trapFatal() {
	log.SetFlags(0)
	log.SetOutput(fatalTrap{})
}

// fatalMessage extracts the log.Fatal message from a Guard error ("" if it is an ordinary panic).
func fatalMessage(err error) string {
	s := err.Error()
	i := strings.Index(s, "log.Fatal: ")
	if i < 0 {
		return ""
	}
	s = s[i+len("log.Fatal: "):]
	if j := strings.IndexByte(s, '\n'); j >= 0 {
		s = s[:j]
	}
	return s
}

func calmDown() {
	data, err := os.ReadFile("/proc/loadavg")
	if err != nil {
		return
	}
	var load float64
	fmt.Sscanf(string(data), "%f", &load)
	if load > 32 {
		runtime.GOMAXPROCS(4)
	}
}

func run(c *core.Ctx) {
	trapFatal()
	calmDown()
	c.Rule("phase A: every reduced gramenum grammar of the scope x 5 input configurations x {plain, last terminal = error} with every atom, its complement " +
		"and 2 compounds per atom; phase B: 3 showcase grammars x all expressions with <=2 literals (atom or ~atom) x {plain, complemented} and all " +
		"3-literal expressions over 8 literals; phase C: systems of 1..3 named sets whose definitions range over 20..40 templates mentioning each other; " +
		"phase D: set(expr) inside a rule for every literal, also self-dependent; phase E: 144 grammars whose nonterminals X2, X3 are reachable only through a lookahead predicate (8 predicates with negations and conjunctions x 3 positions x 3 bodies x 2 input lists) with every atom, complement and compound; phase F: 3 grammars with lists (extracted nonterminals sort before/between/after the declared ones) x every atom over a nonterminal x 8 systems of named sets referring to it at depth 1..3 and fan-out 1..3. 20 %generate per text. evaluations = grammar texts (all distinct, each with ~20 named sets); nontrivial = texts with at least one " +
		"named set whose value is neither empty nor the whole terminal universe (the per-expression count is distinct_expression_value_pairs)")
	c.Assume("the complement universe is every terminal of the grammar: eoi, invalid_token, error and all lexer tokens (sides with syntax/set.go; no documentation)")
	c.Assume("follow/precede never contain eoi; `any` of a nonterminal = terminals occurring in the rules reachable from it; a set(...) without terminals inside a rule matches nothing (a choice of no terminals): an %empty rule for it is reported as set-in-rule:empty-set-derives-empty-string, rejecting the grammar is accepted")
	c.Assume("a lookahead marker (?= X & !Y) is an empty (nullable) symbol with empty first/last/any; every nonterminal named in it, negated or not, counts as reachable, so its rules take part in all fixpoints (this is what HEAD does)")
	c.Assume("%assert directives are parsed and resolved but never enforced by the compiler (compiler/syntax.go collects them, nothing reads them): only their non-interference is checked")

	var mu sync.Mutex
	distinct := map[string]bool{}
	var nTexts, nCycle, nConfl, nNontriv int64
	runSpecs := func(specs []*spec) {
		vs := make([]verdict, len(specs))
		core.ParallelFor(len(specs), 16, func(i int) {
			s := specs[i]
			v := check(s)
			vs[i] = v
			c.Eval(1)
			mu.Lock()
			nTexts++
			if v.cycle {
				nCycle++
			}
			if v.conflicts {
				nConfl++
			}
			for _, d := range v.nonEmpty {
				distinct[d] = true
			}
			if len(v.nonEmpty) > 0 {
				nNontriv++ // one per (distinct) grammar text with at least one non-trivial set value
			}
			mu.Unlock()
		})
		for i, v := range vs { // in enumeration order
			if v.key != "" {
				c.Violate(v.key, v.what, specs[i])
			}
		}
	}

	// ---- phase A
	scopes := []gramenum.Scope{
		{N: 1, T: 2, R: 3, K: 2, Reduced: true},
		{N: 2, T: 2, R: 3, K: 2, Reduced: true},
		{N: 3, T: 2, R: 3, K: 2, Reduced: true},
		{N: 2, T: 3, R: 3, K: 2, Reduced: true},
	}
	// thorough only, after the other phases: they may use up the budget
	lateScopes := []gramenum.Scope{
		{N: 2, T: 2, R: 4, K: 2, MinR: 4, Reduced: true},
		{N: 2, T: 2, R: 3, K: 3, Reduced: true},
	}
	nGrams := int64(0)
	phaseA := func(scopes []gramenum.Scope) {
		for _, sc := range scopes {
			var pending []*spec
			flush := func() {
				runSpecs(pending)
				pending = pending[:0]
			}
			capped := false
			gramenum.Enumerate(sc, func(idx int, g *gramenum.Gram) bool {
				if c.Expired() {
					capped = true
					return false
				}
				nGrams++
				x1 := g.T + 1
				cfgs := [][]gramenum.Input{{{NT: x1, Eoi: true}}, {{NT: x1, Eoi: false}}} // (listing X1 twice is a compile error since repo commit 6173e1b)
				if g.N >= 2 {
					x2 := g.T + 2
					cfgs = append(cfgs,
						[]gramenum.Input{{NT: x2, Eoi: false}, {NT: x1, Eoi: true}},
						[]gramenum.Input{{NT: x2, Eoi: true}, {NT: x1, Eoi: true}}) // rules reachable from X2 only
				}
				for ci, cfg := range cfgs {
					for _, withErr := range []bool{false, true} {
						if withErr && g.T < 2 {
							continue
						}
						base := gramSpec(g, cfg, withErr)
						at := atomsOf(base)
						exprs := append([]*sx{}, at...)
						for _, a := range at {
							exprs = append(exprs, not(a))
						}
						if ci == 0 || ci == 4 {
							exprs = append(exprs, compoundsOf(at)...)
						}
						pending = append(pending, withSets(base, exprs, "A")...)
					}
				}
				if len(pending) >= 2000 {
					flush()
				}
				return c.ViolationCount() < 20
			})
			flush()
			if capped {
				c.Capped(fmt.Sprintf("phase A scope %+v cut short (budget)", sc))
				break
			}
		}
	}
	phaseA(scopes)
	c.Outcome("phaseA-texts", nTexts)

	// ---- phase B
	before := nTexts
	for gi, base := range showcase() {
		if c.Expired() {
			c.Capped("phase B cut short (budget)")
			break
		}
		at := atomsOf(base)
		lits := literals(at)
		var exprs []*sx
		for _, a := range lits {
			exprs = append(exprs, a)
		}
		for _, a := range lits {
			for _, b := range lits {
				exprs = append(exprs, or(a, b), and(a, b), not(or(a, b)), not(and(a, b)))
			}
		}
		// reduced literal alphabet for 3-literal expressions: spread over the atom list
		var red []*sx
		step := len(at) / 4
		for i := 0; i < 4; i++ {
			red = append(red, at[(i*step+gi)%len(at)], not(at[(i*step+gi+1)%len(at)]))
		}
		if !c.Quick() {
			red = nil
			step = len(at) / 7
			for i := 0; i < 7; i++ {
				red = append(red, at[(i*step+gi)%len(at)], not(at[(i*step+gi+1)%len(at)]))
			}
		}
		ops := []func(a, b *sx) *sx{or, and}
		for _, a := range red {
			for _, b := range red {
				for _, d := range red {
					for _, o1 := range ops {
						for _, o2 := range ops {
							exprs = append(exprs, o2(o1(a, b), d), o2(a, o1(b, d)))
							if c.Quick() {
								continue
							}
							exprs = append(exprs, not(o2(o1(a, b), d)), o2(not(o1(a, b)), d))
						}
					}
				}
			}
		}
		runSpecs(withSets(base, exprs, "B"))
	}
	c.Outcome("phaseB-texts", nTexts-before)

	// ---- phase C: systems of named sets
	before = nTexts
	{
		base := showcase()[0]
		names := []string{"A", "B", "C"}
		t1, t2, x := atom("any", "ta"), atom("any", "tc"), atom("first", "X1")
		defsFor := func(avail []string, full bool) []*sx {
			var out []*sx
			out = append(out, t1, or(t2, x))
			for _, n := range avail {
				r := nameRef(n)
				out = append(out, r, or(r, t1), and(r, x), not(r), not(or(r, t1)))
				if full {
					out = append(out, and(not(r), t2), or(and(r, x), t2))
				}
				for _, m := range avail {
					q := nameRef(m)
					out = append(out, or(r, q), and(r, q))
					if full {
						out = append(out, and(not(r), not(q)), or(r, not(q)))
					}
				}
			}
			return out
		}
		var specs []*spec
		mkSys := func(defs []*sx) *spec {
			s := *base
			s.Class = "C"
			s.Sets = nil
			for i, d := range defs {
				s.Sets = append(s.Sets, sdef{Name: names[i], Expr: d})
			}
			return &s
		}
		for _, d := range defsFor(names[:1], true) {
			specs = append(specs, mkSys([]*sx{d}))
		}
		d2 := defsFor(names[:2], true)
		for _, a := range d2 {
			for _, b := range d2 {
				specs = append(specs, mkSys([]*sx{a, b}))
			}
		}
		d3 := defsFor(names[:3], !c.Quick())
		if c.Quick() {
			// 3 names, quick: definitions that mention at most one name twice
			var red []*sx
			for i, d := range d3 {
				if i%2 == 0 || d.Op == "name" || d.Op == "not" {
					red = append(red, d)
				}
			}
			d3 = red
		}
		for _, a := range d3 {
			for _, b := range d3 {
				for _, d := range d3 {
					specs = append(specs, mkSys([]*sx{a, b, d}))
				}
			}
		}
		c.Set("phaseC_systems", len(specs))
		for lo := 0; lo < len(specs); lo += 4000 {
			if c.Expired() {
				c.Capped("phase C cut short (budget)")
				break
			}
			hi := lo + 4000
			if hi > len(specs) {
				hi = len(specs)
			}
			runSpecs(specs[lo:hi])
		}
	}
	c.Outcome("phaseC-texts", nTexts-before)

	// ---- phase D: set(...) inside a rule
	before = nTexts
	for _, base := range showcase() {
		if c.Expired() {
			c.Capped("phase D cut short (budget)")
			break
		}
		at := atomsOf(base)
		lits := literals(at)
		var exprs []*sx
		exprs = append(exprs, lits...)
		exprs = append(exprs, nameRef("N"), not(nameRef("N")), and(nameRef("N"), not(at[0])))
		for i := 0; i+1 < len(lits); i += 3 {
			exprs = append(exprs, and(lits[i], lits[i+1]), or(lits[i+1], lits[i]))
		}
		var specs []*spec
		for _, host := range base.NTs {
			for _, e := range exprs {
				for variant := 0; variant < 2; variant++ {
					s := *base
					s.Class = "D"
					s.Rules = append([]srule{}, base.Rules...)
					r := srule{LHS: host, RHS: []sitem{{Set: e}}}
					if variant == 1 {
						r.RHS = []sitem{{Sym: base.Terms[0]}, {Set: e}, {Sym: host}}
					}
					s.Rules = append(s.Rules, r)
					// named sets observing the neighbourhood of the set symbol
					s.Sets = []sdef{
						{Name: "N", Expr: or(atom("first", host), atom("any", base.Terms[1]))},
						{Name: "F", Expr: atom("follow", base.Terms[0])},
						{Name: "P", Expr: atom("precede", host)},
						{Name: "L", Expr: atom("last", base.NTs[0])},
						{Name: "Y", Expr: atom("any", host)},
					}
					specs = append(specs, &s)
				}
			}
		}
		runSpecs(specs)
	}
	c.Outcome("phaseD-texts", nTexts-before)

	// ---- phase E: nonterminals reachable only through lookahead predicates
	before = nTexts
	for _, base := range lookaheadGrammars() {
		if c.Expired() {
			c.Capped("phase E cut short (budget)")
			break
		}
		at := atomsOf(base)
		exprs := append([]*sx{}, at...)
		for _, a := range at {
			exprs = append(exprs, not(a))
		}
		exprs = append(exprs, compoundsOf(at)...)
		runSpecs(withSets(base, exprs, "E"))
	}
	c.Outcome("phaseE-texts", nTexts-before)

	// ---- phase F: named sets over nonterminal atoms that are referenced from other named sets, in
	// grammars where list extraction adds nonterminals that sort between the declared ones
	before = nTexts
	{
		var specs []*spec
		for _, host := range listHosts() {
			var atoms []*sx
			for _, n := range host.NTs {
				for _, op := range []string{"first", "last", "any", "follow", "precede"} {
					atoms = append(atoms, atom(op, n))
				}
			}
			td := atom("any", host.Terms[len(host.Terms)-1])
			other := atom("first", host.NTs[len(host.NTs)-1])
			a, b2, c2, d2 := nameRef("A"), nameRef("B"), nameRef("C"), nameRef("D")
			for _, at := range atoms {
				systems := [][]sdef{
					{{Name: "A", Expr: at}}, // nothing shared
					{{Name: "A", Expr: at}, {Name: "B", Expr: or(a, td)}},
					{{Name: "B", Expr: or(a, td)}, {Name: "A", Expr: at}}, // referenced before it is declared
					{{Name: "A", Expr: at}, {Name: "B", Expr: or(a, td)}, {Name: "C", Expr: or(b2, other)}},
					{{Name: "A", Expr: at}, {Name: "B", Expr: and(a, other)}, {Name: "C", Expr: or(a, td)}}, // fan-out 2
					{{Name: "A", Expr: at}, {Name: "B", Expr: or(a, td)}, {Name: "C", Expr: and(b2, not(td))}, {Name: "D", Expr: or(c2, other)}},
					{{Name: "A", Expr: at}, {Name: "B", Expr: not(a)}, {Name: "C", Expr: or(a, b2)}, {Name: "D", Expr: and(a, or(b2, c2))}}, // fan-out 3
					{{Name: "A", Expr: or(at, other)}, {Name: "B", Expr: and(a, a)}, {Name: "C", Expr: or(d2, a)}, {Name: "D", Expr: at}},
				}
				for _, sys := range systems {
					sp := *host
					sp.Class = "F"
					sp.Sets = sys
					specs = append(specs, &sp)
				}
			}
		}
		runSpecs(specs)
	}
	c.Outcome("phaseF-texts", nTexts-before)

	if !c.Quick() {
		before = nTexts
		phaseA(lateScopes)
		c.Outcome("phaseA-late-texts", nTexts-before)
	}
	c.Set("phaseA_grammars", nGrams)

	c.Nontrivial(nNontriv)
	c.Set("distinct_expression_value_pairs", len(distinct))
	c.Set("grammar_texts", nTexts)
	c.Set("texts_rejected_for_complement_cycle_as_expected", nCycle)
	c.Set("texts_with_lalr_conflicts_still_checked", nConfl)
	c.Outcome("complement-cycle-rejected", nCycle)
	c.Outcome("accepted", nTexts-nCycle)
	var ds []string
	for d := range distinct {
		ds = append(ds, d)
	}
	sort.Strings(ds)
	for i := 0; i < len(ds); i += len(ds)/8 + 1 {
		c.Sample(ds[i])
	}
}

func replay(c *core.Ctx, raw json.RawMessage) error {
	trapFatal()
	var s spec
	if err := json.Unmarshal(raw, &s); err != nil {
		return err
	}
	v := check(&s)
	if v.key != "" {
		return fmt.Errorf("%s: %s", v.key, v.what)
	}
	return nil
}
