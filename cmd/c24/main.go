// C24: shift-DFA scanners agree with the lexer tables they pack.
//
// Rule sets come from the enumerator shared with C09 (internal/rxref): <= 3 rules, pattern ASTs of
// <= 4 nodes over the byte-mode atoms a b [ab] . {eoi} {p} {q} {r} \xe9 é [\x80-\xff] [\x80-\xbf]
// [\xc0-\xff] [^a], relative priorities, one start condition, no backtracking. For every rule
// set that shiftdfa.Compile accepts, every byte string over {a, b, \x7f, \x80, \xbf, \xc3, \xff} up to
// the length bound is scanned with the shift-DFA and with lex.Tables.Scan on tables compiled from
// the same rules (byte mode, backtracking disallowed, exactly what shiftdfa.Compile does); length
// and token must be equal. Rule sets the packer rejects are outside the property (counted only).
//
// Violation keys:
//   - nonascii-rules-accepted: the rules tell two bytes >= 0x80 apart (decided on the AST by the
//     rxref reference, independent of /repo), the packer accepted them nevertheless and the two
//     scanners disagree on an input containing a byte >= 0x80;
//   - nonascii-rules:ascii-input:<kind>: such a rule set disagrees on a pure ASCII input;
//   - ascii-rules:<ascii-input|nonascii-input>:<kind>: the rules treat all bytes >= 0x80 alike (what
//     the packer is designed for) and the scanners disagree; kind = size | token;
//   - scan:panic:<site>, compile:panic:<site>, harness:*.
package main

import (
	"encoding/json"
	"fmt"
	"strings"
	"sync"
	"time"

	"github.com/inspirer/textmapper/lex"
	"github.com/inspirer/textmapper/shiftdfa"
	"github.com/inspirer/textmapper/status"

	"verif/internal/core"
	"verif/internal/rxref"
)

func main() { core.Main("C24", "exploration", run, replay, nil) }

type ruleSpec struct {
	Pattern string      `json:"pattern"`
	AST     *rxref.Node `json:"ast"`
	Prio    int         `json:"prio"`
}

type rcase struct {
	Rules []ruleSpec        `json:"rules"` // token of rule i is i+1
	Named map[string]string `json:"named"`
	Input []int             `json:"input"`
	Text  string            `json:"text"`
}

func describe(rules []ruleSpec) string {
	var sb strings.Builder
	sb.WriteString("{")
	for i, r := range rules {
		if i > 0 {
			sb.WriteString(" ")
		}
		fmt.Fprintf(&sb, "/%s/->%d prio=%d", r.Pattern, i+1, r.Prio)
	}
	sb.WriteString("}")
	return sb.String()
}

type origin struct{ i int }

func (o origin) SourceRange() status.SourceRange {
	return status.SourceRange{Filename: "rules", Line: o.i + 1, Column: 1}
}

type resolver map[string]*lex.Pattern

func (r resolver) Resolve(name string) *lex.Pattern { return r[name] }

var letters = []string{"a", "b", "\x7f", "\x80", "\xbf", "\xc3", "\xff"}

type worker struct {
	named      map[string]*rxref.Node
	namedTexts map[string]string
	res        resolver
	m          *rxref.Matcher
	uniform    map[*rxref.Node]int8 // 1: treats all bytes >= 0x80 alike, 2: does not
	txt        map[*rxref.Node]string
	st         stats
}

type stats struct {
	evals, rulesets, accepted, nontrivial int64
	outcomes                              map[string]int64
}

func newWorker() (*worker, error) {
	w := &worker{named: rxref.NamedPatterns(), namedTexts: map[string]string{}, res: resolver{},
		uniform: map[*rxref.Node]int8{}, txt: map[*rxref.Node]string{}}
	w.st.outcomes = map[string]int64{}
	w.m = rxref.NewMatcher(rxref.Opts{Bytes: true}, w.named)
	for _, name := range rxref.NamedOrder {
		text := w.named[name].String()
		w.namedTexts[name] = text
		re, err := lex.ParseRegexp(text, lex.CharsetOptions{ScanBytes: true})
		if err != nil {
			return nil, fmt.Errorf("named pattern %s = /%s/: %v", name, text, err)
		}
		w.res[name] = &lex.Pattern{Name: name, RE: re, Text: text, Origin: origin{100}}
	}
	return w, nil
}

// nonASCIIUniform reports whether every leaf of the pattern contains either all or none of the
// bytes 0x80..0xff (so the language cannot tell two non-ASCII bytes apart).
func (w *worker) nonASCIIUniform(n *rxref.Node) bool {
	if v, ok := w.uniform[n]; ok {
		return v == 1
	}
	sets, _ := w.m.LeafSets(n)
	ok := true
	for _, s := range sets {
		first := s.Contains(0x80)
		for b := int32(0x81); b <= 0xff; b++ {
			if s.Contains(b) != first {
				ok = false
			}
		}
	}
	if ok {
		w.uniform[n] = 1
	} else {
		w.uniform[n] = 2
	}
	return ok
}

func (w *worker) text(n *rxref.Node) string {
	if t, ok := w.txt[n]; ok {
		return t
	}
	t := n.String()
	w.txt[n] = t
	return t
}

func rejectClass(err error) string {
	msg := err.Error()
	switch {
	case strings.Contains(msg, "accepts empty text"):
		return "rejected:empty-match"
	case strings.Contains(msg, "two rules are identical"):
		return "rejected:identical-rules"
	case strings.Contains(msg, "Needs backtracking"):
		return "rejected:needs-backtracking"
	case strings.Contains(msg, "too many states"):
		return "rejected:too-many-states"
	case strings.Contains(msg, "too many actions"):
		return "rejected:too-many-actions"
	case strings.Contains(msg, "invalid transition on end of input"):
		return "rejected:eoi-transition"
	case strings.Contains(msg, "only ASCII automatons"):
		return "rejected:not-ascii"
	case strings.Contains(msg, "cannot parse"):
		return "rejected:parse-error"
	}
	return "rejected:other"
}

func safeShift(d *shiftdfa.Scanner, text string) (size int, tok uint8, err error) {
	defer func() {
		if r := recover(); r != nil {
			err = core.Guard(func() { panic(r) })
		}
	}()
	size, tok = d.Scan(text)
	return
}

func safeLex(t *lex.Tables, text string) (size, action int, err error) {
	defer func() {
		if r := recover(); r != nil {
			err = core.Guard(func() { panic(r) })
		}
	}()
	size, action = t.Scan(0, text)
	return
}

func bytesOf(s string) []int {
	out := make([]int, len(s))
	for i := 0; i < len(s); i++ {
		out[i] = int(s[i])
	}
	return out
}

type finding struct {
	key, what string
	c         rcase
}

// checkRuleSet compares the two scanners on one rule set; inputs == nil means "only".
func (w *worker) checkRuleSet(rules []ruleSpec, inputs []string, report func(finding)) {
	st := &w.st
	st.rulesets++
	fail := func(key, what string, text string) {
		report(finding{key, what + " :: " + describe(rules), rcase{Rules: rules, Named: w.namedTexts, Input: bytesOf(text), Text: fmt.Sprintf("%q", text)}})
	}
	var srules []shiftdfa.Rule
	for i, r := range rules {
		srules = append(srules, shiftdfa.Rule{Pattern: r.Pattern, Token: i + 1, Precedence: r.Prio})
	}
	var dfa *shiftdfa.Scanner
	var cerr error
	if perr := core.Guard(func() { dfa, cerr = shiftdfa.Compile(srules, shiftdfa.Options{Patterns: w.namedTexts}) }); perr != nil {
		fail("compile:panic:"+core.PanicSite(perr), perr.Error(), "")
		return
	}
	if cerr != nil {
		cls := rejectClass(cerr)
		st.outcomes[cls]++
		if cls == "rejected:parse-error" || cls == "rejected:other" {
			fail("harness:unexpected-rejection", cerr.Error(), "")
		}
		return
	}
	if dfa == nil {
		fail("compile:nil-scanner", "Compile returned neither a scanner nor an error", "")
		return
	}
	st.accepted++

	// The tables shiftdfa.Compile packed are not exported: build them again from the same rules in
	// the same way (byte mode, one start condition, backtracking disallowed).
	var lrules []*lex.Rule
	for i, r := range rules {
		re, err := lex.ParseRegexp(r.Pattern, lex.CharsetOptions{ScanBytes: true})
		if err != nil {
			fail("harness:pattern-does-not-parse", err.Error(), "")
			return
		}
		lrules = append(lrules, &lex.Rule{
			Pattern:         &lex.Pattern{Name: fmt.Sprintf("rule%d", i), RE: re, Text: r.Pattern, Origin: origin{i}},
			Resolver:        w.res,
			Precedence:      r.Prio,
			Action:          i + 1,
			StartConditions: []int{0},
			Origin:          origin{i},
		})
	}
	var tables *lex.Tables
	var lerr error
	if perr := core.Guard(func() { tables, lerr = lex.Compile(lrules, true, false) }); perr != nil {
		fail("harness:lex-compile-panic", perr.Error(), "")
		return
	}
	if lerr != nil {
		fail("harness:lex-compile-differs", "shiftdfa.Compile accepted the rules but lex.Compile on the same rules fails: "+lerr.Error(), "")
		return
	}

	uniform := true
	for _, r := range rules {
		if !w.nonASCIIUniform(r.AST) {
			uniform = false
		}
	}
	if uniform {
		st.outcomes["accepted:non-ascii-bytes-alike"]++
	} else {
		st.outcomes["accepted:tells-non-ascii-bytes-apart"]++
	}

	reported := map[string]bool{}
	firstSize, firstTok, haveFirst, varied := 0, 0, false, false
	for _, text := range inputs {
		st.evals++
		wsize, wact, werr := safeLex(tables, text)
		if werr != nil {
			if !reported["lex"] {
				reported["lex"] = true
				fail("harness:lex-scan-panic", werr.Error(), text)
			}
			continue
		}
		size, tok, perr := safeShift(dfa, text)
		if perr != nil {
			key := "scan:panic:" + core.PanicSite(perr)
			if !reported[key] {
				reported[key] = true
				fail(key, perr.Error(), text)
			}
			continue
		}
		if wact == 0 {
			st.outcomes["scan:invalid"]++
		} else {
			st.outcomes["scan:token"]++
		}
		if !haveFirst {
			firstSize, firstTok, haveFirst = wsize, wact, true
		} else if wsize != firstSize || wact != firstTok {
			varied = true
		}
		if size == wsize && int(tok) == wact {
			continue
		}
		ascii := true
		for i := 0; i < len(text); i++ {
			if text[i] >= 0x80 {
				ascii = false
			}
		}
		kind := "token"
		if size != wsize {
			kind = "size"
		}
		var key string
		switch {
		case !uniform && !ascii:
			key = "nonascii-rules-accepted"
		case !uniform:
			key = "nonascii-rules:ascii-input:" + kind
		case ascii:
			key = "ascii-rules:ascii-input:" + kind
		default:
			key = "ascii-rules:nonascii-input:" + kind
		}
		if reported[key] {
			continue
		}
		reported[key] = true
		fail(key, fmt.Sprintf("shiftdfa Scan(%q) = (size %d, token %d), lex.Tables.Scan = (size %d, action %d)", text, size, tok, wsize, wact), text)
	}
	if varied {
		st.nontrivial++
	}
}

func (s *stats) addTo(c *core.Ctx) {
	c.Eval(s.evals)
	c.Nontrivial(s.nontrivial)
	c.Add("rule_sets", s.rulesets)
	c.Add("rule_sets_accepted", s.accepted)
	for k, v := range s.outcomes {
		c.Outcome(k, v)
	}
	*s = stats{outcomes: map[string]int64{}}
}

const maxNodes = 4

type level struct{ k, total int }

func levels(quick bool) []level {
	if quick {
		return []level{{1, 1}, {1, 2}, {2, 2}, {1, 3}, {2, 3}, {3, 3}, {1, 4}, {2, 4}, {3, 4}}
	}
	return []level{{1, 1}, {1, 2}, {2, 2}, {1, 3}, {2, 3}, {3, 3}, {1, 4}, {2, 4}, {3, 4}, {2, 5}, {3, 5}}
}

type job struct {
	sizes  []int
	lo, hi int
}

func run(c *core.Ctx) {
	maxLen := 4
	inputs := rxref.Words(letters, maxLen)
	soft := 60 * time.Second
	if !c.Quick() {
		soft = 12 * time.Minute
	}
	c.Rule(fmt.Sprintf("rule sets by (number of rules k<=3, total AST nodes): patterns of <=%d nodes over atoms a b [ab] . {eoi} {p} {q} {r} \\xe9 é [\\x80-\\xff] [\\x80-\\xbf] [\\xc0-\\xff] [^a] with * + ? {1,2} cat alt, x relative priorities; for each set accepted by shiftdfa.Compile every byte string over {a,b,\\x7f,\\x80,\\xbf,\\xc3,\\xff} of length <=%d (%d texts). One evaluation = one (accepted rule set, text) pair scanned by both scanners. non-trivial = distinct accepted rule set whose scans show >=2 different (size, token) results", maxNodes, maxLen, len(inputs)))
	c.Assume("lex.Compile(rules, scanBytes=true, allowBacktracking=false) on identically parsed rules yields the tables shiftdfa.Compile packs (shiftdfa does not export them)")
	c.Set("input_texts", len(inputs))

	bySize := rxref.Regexes(rxref.AtomsC24(), maxNodes)
	var mu sync.Mutex
	// Shards run in parallel: keep, per key, the simplest failing case (fewest AST nodes, fewest
	// rules, shortest text, then the textual order) so that the recorded example is deterministic.
	type kept struct {
		f     finding
		count int
	}
	best := map[string]*kept{}
	cost := func(f finding) string {
		nodes := 0
		for _, r := range f.c.Rules {
			nodes += r.AST.Size()
		}
		return fmt.Sprintf("%03d/%d/%d/%s", nodes, len(f.c.Rules), len(f.c.Input), f.what)
	}
	report := func(f finding) {
		mu.Lock()
		defer mu.Unlock()
		k := best[f.key]
		if k == nil {
			best[f.key] = &kept{f, 1}
			return
		}
		k.count++
		if cost(f) < cost(k.f) {
			k.f = f
		}
	}
	defer func() {
		for key, k := range best {
			c.Violate(key, fmt.Sprintf("%s [%d failing rule sets]", k.f.what, k.count), k.f.c)
		}
	}()
	pool := make(chan *worker, 16)
	for i := 0; i < 16; i++ {
		w, err := newWorker()
		if err != nil {
			c.Violate("harness:named-pattern", err.Error(), nil)
			return
		}
		pool <- w
	}
	// Scaled family (beyond the <=4-node enumeration): long literals reach the packer's state limit
	// (one uint64 row holds 6 bits for each of at most 10 states). For n = 1..12: the literal of
	// length n over "ababab…", the same with its last character under +, and both next to a
	// lower-priority [ab]+ rule; inputs around the literal.
	{
		w := <-pool
		famSets := 0
		for n := 1; n <= 12; n++ {
			var lits []*rxref.Node
			text := ""
			for i := 0; i < n; i++ {
				ch := rune("ab"[i%2])
				lits = append(lits, rxref.Lit(ch))
				text += string(ch)
			}
			plain := rxref.Cat(lits...)
			plusLast := rxref.Cat(append(append([]*rxref.Node{}, lits[:n-1]...), rxref.Rep(lits[n-1], 1, -1))...)
			if n == 1 {
				plain, plusLast = lits[0], rxref.Rep(lits[0], 1, -1)
			}
			last := text[n-1:]
			ins := []string{"", text, text + "b", text + "a", text + last, text + last + last, text[:n-1], text + "\x80", text + " "}
			any := rxref.Rep(rxref.Class(false, [2]rune{'a', 'b'}), 1, -1)
			for _, ast := range []*rxref.Node{plain, plusLast} {
				for _, rules := range [][]ruleSpec{
					{{Pattern: w.text(ast), AST: ast}},
					{{Pattern: w.text(ast), AST: ast, Prio: 1}, {Pattern: w.text(any), AST: any}},
				} {
					w.checkRuleSet(rules, ins, report)
					famSets++
				}
			}
		}
		w.st.addTo(c)
		pool <- w
		c.Set("long_literal_family_rule_sets", famSets)
	}
	var levelInfo []string
	stopped := false
	for _, lv := range levels(c.Quick()) {
		if stopped {
			c.Capped(fmt.Sprintf("level not started: k=%d nodes=%d", lv.k, lv.total))
			continue
		}
		var jobs []job
		for _, sizes := range rxref.Compositions(lv.k, lv.total, maxNodes) {
			n := rxref.TupleCount(bySize, sizes)
			for lo := 0; lo < n; lo += 64 {
				hi := lo + 64
				if hi > n {
					hi = n
				}
				jobs = append(jobs, job{sizes, lo, hi})
			}
		}
		prios := rxref.PrioVectors(lv.k)
		var done, skipped int64
		var lmu sync.Mutex
		core.ParallelFor(len(jobs), 16, func(ji int) {
			if c.Expired() || time.Since(c.Start) > soft {
				lmu.Lock()
				skipped++
				lmu.Unlock()
				return
			}
			j := jobs[ji]
			w := <-pool
			defer func() { pool <- w }()
			tuple := make([]*rxref.Node, lv.k)
			var n int64
			for idx := j.lo; idx < j.hi; idx++ {
				rxref.Tuple(bySize, j.sizes, idx, tuple)
				for _, pv := range prios {
					rules := make([]ruleSpec, lv.k)
					for i, ast := range tuple {
						rules[i] = ruleSpec{Pattern: w.text(ast), AST: ast, Prio: pv[i]}
					}
					before := w.st.accepted
					w.checkRuleSet(rules, inputs, report)
					if w.st.accepted > before && ji%53 == 0 && idx == j.lo && c.SampleCount() < 8 {
						c.Sample(describe(rules))
					}
					n++
				}
			}
			w.st.addTo(c)
			lmu.Lock()
			done += n
			lmu.Unlock()
		})
		levelInfo = append(levelInfo, fmt.Sprintf("k=%d nodes=%d: %d rule sets (t=%.0fs)", lv.k, lv.total, done, time.Since(c.Start).Seconds()))
		if skipped > 0 {
			c.Capped(fmt.Sprintf("budget expired in level k=%d nodes=%d: %d of %d shards skipped", lv.k, lv.total, skipped, len(jobs)))
			stopped = true
		}
	}
	c.Set("levels", levelInfo)
}

func replay(c *core.Ctx, raw json.RawMessage) error {
	var rc rcase
	if err := json.Unmarshal(raw, &rc); err != nil {
		return err
	}
	w, err := newWorker()
	if err != nil {
		return err
	}
	for i := range rc.Rules {
		rc.Rules[i].Pattern = rc.Rules[i].AST.String()
	}
	b := make([]byte, len(rc.Input))
	for i, v := range rc.Input {
		b[i] = byte(v)
	}
	var got []finding
	w.checkRuleSet(rc.Rules, []string{string(b)}, func(f finding) { got = append(got, f) })
	if len(got) > 0 {
		return fmt.Errorf("%s: %s", got[0].key, got[0].what)
	}
	return nil
}
