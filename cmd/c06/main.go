// C06: parser state minimization preserves behaviour from every entry point.
// Every grammar of the scope (conflicting ones included) x input configuration (incl. duplicated
// no-eoi inputs as produced by synthetic lookahead inputs) x rule-attribute variant is compiled
// twice (MinimizeDFA off/on); both parsers are started at every input's entry state (= the input
// index, as the generated Parse functions do) and run in lock-step on every token string <= L.
package main

import (
	"encoding/json"
	"fmt"
	"sync/atomic"

	"github.com/inspirer/textmapper/lalr"

	"verif/internal/core"
	"verif/internal/gramenum"
	"verif/internal/tabinterp"
)

type caseT struct {
	Grammar  string           `json:"grammar"`
	G        *gramenum.Gram   `json:"g"`
	Inputs   []gramenum.Input `json:"inputs"`
	SameAttr bool             `json:"same_attr"`
	Optimize bool             `json:"optimize"`
	Input    int              `json:"input"`
	W        string           `json:"w"`
	Marker   int              `json:"marker"` // rule that carries a trailing state marker, -1 = none
}

func main() { core.Main("C06", "model_checking", run, replay, nil) }

func configs(g *gramenum.Gram) [][]gramenum.Input {
	x1 := g.T + 1
	out := [][]gramenum.Input{
		{{x1, true}},
		{{x1, false}},
		{{x1, false}, {x1, false}},
		{{x1, true}, {x1, false}, {x1, false}},
	}
	if g.N >= 2 {
		x2 := g.T + 2
		out = append(out,
			[]gramenum.Input{{x1, true}, {x2, true}},
			[]gramenum.Input{{x2, false}, {x1, true}},
			[]gramenum.Input{{x1, true}, {x2, false}, {x2, false}},
			[]gramenum.Input{{x1, false}, {x2, false}, {x1, false}},
		)
	}
	return out
}

// markerAt >= 0 inserts a state marker at the end of that rule (markers must not change behaviour,
// and rule lengths used for rule equivalence must not count them).
var markerRule = -1

func build(g *gramenum.Gram, inputs []gramenum.Input, sameAttr, minimize, optimize bool) (*lalr.Grammar, *lalr.Tables, error) {
	return buildM(g, inputs, sameAttr, minimize, optimize, -1)
}

func buildM(g *gramenum.Gram, inputs []gramenum.Input, sameAttr, minimize, optimize bool, marker int) (*lalr.Grammar, *lalr.Tables, error) {
	attrVariant := 0
	if marker <= -2 { // encoded: -2 = attribute variant 2 without marker
		attrVariant = 2
		marker = -1
	}
	lg := g.ToLalr(inputs)
	if marker >= 0 {
		lg = g.WithMarker(inputs, marker, len(g.Rules[marker].RHS))
	}
	if sameAttr {
		for i := range lg.Rules {
			lg.Rules[i].Action = 0
		}
	}
	if attrVariant == 2 {
		// one shared non-zero action, node types alternate: rules differ only in their type
		for i := range lg.Rules {
			lg.Rules[i].Action = 1
			lg.Rules[i].Type = i % 2
		}
	}
	var tbl *lalr.Tables
	err := core.Guard(func() { tbl, _ = lalr.Compile(lg, lalr.Options{MinimizeDFA: minimize, Optimize: optimize}) })
	return lg, tbl, err
}

type ruleClass struct {
	lhs, ln, action, typ int
}

func classOf(lg *lalr.Grammar, t *lalr.Tables, r int) ruleClass {
	return ruleClass{int(lg.Rules[r].LHS), t.RuleLen[r], lg.Rules[r].Action, lg.Rules[r].Type}
}

func tokensOf(w string) []int {
	out := make([]int, len(w))
	for i := range w {
		out[i] = int(w[i]-'a') + 1
	}
	return out
}

// lockstep compares the two traces for one input and string.
func lockstep(lg *lalr.Grammar, m0, m1 *tabinterp.Machine, in int, w string) (string, string, int) {
	t0 := m0.Run(in, tokensOf(w))
	var t1 tabinterp.Trace
	if err := core.Guard(func() { t1 = m1.Run(in, tokensOf(w)) }); err != nil {
		return "minimized:panic", err.Error(), len(t0)
	}
	if t0.Last().Kind == tabinterp.Loop {
		// the unminimized parser does not terminate on this input (conflicting grammar resolved into a
		// loop): the minimized one must not terminate either
		if t1.Last().Kind != tabinterp.Loop {
			return "outcome-differs", fmt.Sprintf("unminimized parser loops on %q, minimized: %s", w, t1), len(t0)
		}
		return "", "", len(t0)
	}
	if len(t0) != len(t1) {
		return "trace-length", fmt.Sprintf("on %q from input %d: unminimized %s / minimized %s", w, in, t0, t1), len(t0)
	}
	for i := range t0 {
		a, b := t0[i], t1[i]
		if a.Kind != b.Kind {
			return "step-kind", fmt.Sprintf("on %q from input %d step %d: unminimized %s / minimized %s", w, in, i, t0, t1), len(t0)
		}
		switch a.Kind {
		case tabinterp.Reduce:
			if classOf(lg, m0.T, a.Arg) != classOf(lg, m1.T, b.Arg) {
				return "reduce-class", fmt.Sprintf("on %q from input %d step %d: rule %d vs %d differ in (lhs,len,action,type): %s / %s", w, in, i, a.Arg, b.Arg, t0, t1), len(t0)
			}
		default:
			if a.Arg != b.Arg {
				return "step-arg", fmt.Sprintf("on %q from input %d step %d: %s / %s", w, in, i, t0, t1), len(t0)
			}
		}
	}
	return "", "", len(t0)
}

func scopes(c *core.Ctx) []gramenum.Scope {
	if c.Quick() {
		return []gramenum.Scope{
			{N: 1, T: 2, R: 3, K: 2, AllNTs: true},
			{N: 2, T: 2, R: 3, K: 2, AllNTs: true},
			{N: 1, T: 2, R: 3, K: 3, AllNTs: true},
		}
	}
	return []gramenum.Scope{
		{N: 1, T: 2, R: 4, K: 2, AllNTs: true},
		{N: 2, T: 2, R: 4, K: 2, AllNTs: true},
		{N: 1, T: 2, R: 3, K: 3, AllNTs: true},
		{N: 2, T: 2, R: 3, K: 3, AllNTs: true},
		{N: 3, T: 2, R: 4, K: 2, AllNTs: true},
		{N: 2, T: 3, R: 4, K: 2, AllNTs: true},
	}
}

func run(c *core.Ctx) {
	L := 4
	if !c.Quick() {
		L = 5
	}
	c.Set("L", L)
	c.Rule("every rule set of the scope (conflicting grammars included, as with %expect) x 4-8 input configurations (several inputs, no-eoi, duplicated no-eoi inputs = synthetic lookahead inputs) x rule attributes {all distinct, all equal} x optimizeTables{off,on}: MinimizeDFA off vs on started at every input index, every token string <= L; non-trivial = compile where minimization actually merged states; states = distinct lock-step configurations (input, trace prefix), transitions = parser steps compared")
	var merged, states, transitions int64
	process := func(g *gramenum.Gram) {
		for _, inputs := range configs(g) {
			for _, same := range []bool{false, true} {
				for _, optz := range []bool{false, true} {
				for marker := -2; marker < len(g.Rules); marker++ {
					if marker >= 0 && (!same || optz) {
						continue // marker variants: equal rule attributes only (that is where lengths decide the classes)
					}
					if marker == -2 && (same || optz) {
						continue // attribute variant "same non-zero action, alternating node type": once
					}
					lg, t0, e0 := buildM(g, inputs, same, false, optz, marker)
					_, t1, e1 := buildM(g, inputs, same, true, optz, marker)
					base := caseT{g.String(), g, inputs, same, optz, 0, "", marker}
					if e0 != nil || e1 != nil {
						err := e0
						if err == nil {
							err = e1
						}
						c.Violate("panic:"+core.PanicSite(err), err.Error()+" :: "+g.String(), base)
						continue
					}
					c.Eval(1)
					if t1.NumStates < t0.NumStates && marker == -1 {
						atomic.AddInt64(&merged, 1)
						c.Outcome("states-merged", 1)
					} else {
						c.Outcome("nothing-to-merge", 1)
						if optz {
							continue // identical tables; the optimized decode is C05's business
						}
					}
					m0 := &tabinterp.Machine{T: t0, Terms: g.T + 1, Optimized: optz}
					m1 := &tabinterp.Machine{T: t1, Terms: g.T + 1, Optimized: optz}
					seen := map[string]bool{}
					var steps int64
					for in := range inputs {
						gramenum.AllStrings(g.T, L, func(w string) {
							key, msg, n := lockstep(lg, m0, m1, in, w)
							steps += int64(n)
							seen[fmt.Sprint(in, w)] = true
							if key != "" {
								k := base
								k.Input, k.W = in, w
								c.Violate(key, msg+" :: "+g.String()+fmt.Sprintf(" inputs=%v sameAttr=%v optimize=%v markerAfterRule=%d", inputs, same, optz, marker), k)
							}
						})
					}
					atomic.AddInt64(&states, int64(len(seen)))
					atomic.AddInt64(&transitions, steps)
				}
				}
			}
		}
	}
	for _, sc := range scopes(c) {
		if c.Expired() {
			c.Capped(fmt.Sprintf("scope %+v not started (budget)", sc))
			continue
		}
		const block = 512
		var batch []*gramenum.Gram
		stopped := false
		flush := func() {
			gs := batch
			batch = nil
			core.ParallelFor(len(gs), 16, func(i int) { process(gs[i]) })
		}
		n := gramenum.Enumerate(sc, func(idx int, g *gramenum.Gram) bool {
			batch = append(batch, g.Clone())
			if len(batch) >= block {
				flush()
				if c.Expired() {
					stopped = true
					return false
				}
			}
			return true
		})
		flush()
		if stopped {
			c.Capped(fmt.Sprintf("scope %+v stopped after %d grammars (budget)", sc, n))
		}
		c.Add("grammars", int64(n))
	}
	c.Nontrivial(merged)
	c.States(states)
	c.Transitions(transitions)
	c.Traces(0)
	c.Assume("traces are produced by internal/tabinterp, the transcription of the generated parser loop that C01 Layer B validates against generated code")
	c.Sample(map[string]any{"grammar": "X1: ta; X1: tb X1", "inputs": "X1 no-eoi, X1 no-eoi (as produced by '%input X1 no-eoi' plus a (?= X1) lookahead)"})
}

func replay(c *core.Ctx, raw json.RawMessage) error {
	var k caseT
	if err := json.Unmarshal(raw, &k); err != nil {
		return err
	}
	lg, t0, e0 := buildM(k.G, k.Inputs, k.SameAttr, false, k.Optimize, k.Marker)
	_, t1, e1 := buildM(k.G, k.Inputs, k.SameAttr, true, k.Optimize, k.Marker)
	if e0 != nil || e1 != nil {
		return fmt.Errorf("panic: %v %v", e0, e1)
	}
	m0 := &tabinterp.Machine{T: t0, Terms: k.G.T + 1, Optimized: k.Optimize}
	m1 := &tabinterp.Machine{T: t1, Terms: k.G.T + 1, Optimized: k.Optimize}
	if key, msg, _ := lockstep(lg, m0, m1, k.Input, k.W); key != "" {
		return fmt.Errorf("%s: %s", key, msg)
	}
	return nil
}
