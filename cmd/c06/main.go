// C06: parser state minimization preserves behaviour from every entry point.
// Every grammar of the scope (conflicting ones included) x input configuration (incl. duplicated
// no-eoi inputs as produced by synthetic lookahead inputs) x rule-attribute variant is compiled
// twice (MinimizeDFA off/on); both parsers are started at every input's entry state (= the input
// index, as the generated Parse functions do) and run in lock-step on every token string <= L.
package main

import (
	"encoding/json"
	"fmt"
	"sort"
	"sync/atomic"
	"time"

	"github.com/inspirer/textmapper/lalr"

	"verif/internal/core"
	"verif/internal/gramenum"
	"verif/internal/tabinterp"
)

type caseT struct {
	Grammar   string           `json:"grammar"`
	G         *gramenum.Gram   `json:"g"`
	Inputs    []gramenum.Input `json:"inputs"`
	SameAttr  bool             `json:"same_attr"`
	Optimize  bool             `json:"optimize"`
	Input     int              `json:"input"`
	W         string           `json:"w"`
	Marker    int              `json:"marker"` // rule that carries a trailing state marker, -1 = none
	Prec      []precDecl       `json:"prec,omitempty"`
	L         int              `json:"l,omitempty"`
	MarkerPos int              `json:"marker_pos,omitempty"` // position of the marker inside the rule + 1 (0 = at the end)
}

type precDecl struct {
	Assoc int   `json:"assoc"` // 0 left, 1 right, 2 nonassoc
	Terms []int `json:"terms"`
}

func main() { core.Main("C06", "model_checking", run, replay, nil) }

func configs(g *gramenum.Gram) [][]gramenum.Input {
	x1 := g.T + 1
	out := [][]gramenum.Input{
		{{x1, true}},
		{{x1, false}},
		{{x1, false}, {x1, false}},
		{{x1, true}, {x1, false}, {x1, false}},
	}
	if g.N >= 2 {
		x2 := g.T + 2
		out = append(out,
			[]gramenum.Input{{x1, true}, {x2, true}},
			[]gramenum.Input{{x2, false}, {x1, true}},
			[]gramenum.Input{{x1, true}, {x2, false}, {x2, false}},
			[]gramenum.Input{{x1, false}, {x2, false}, {x1, false}},
		)
	}
	return out
}

// markerAt >= 0 inserts a state marker at the end of that rule (markers must not change behaviour,
// and rule lengths used for rule equivalence must not count them).
var markerRule = -1

func buildM(g *gramenum.Gram, inputs []gramenum.Input, sameAttr, minimize, optimize bool, marker int, prec []precDecl, markerPos ...int) (*lalr.Grammar, *lalr.Tables, error) {
	attrVariant := 0
	if marker <= -2 { // encoded: -2 = attribute variant 2 without marker
		attrVariant = 2
		marker = -1
	}
	lg := g.ToLalr(inputs)
	if marker >= 0 {
		pos := len(g.Rules[marker].RHS)
		if len(markerPos) > 0 && markerPos[0] > 0 {
			pos = markerPos[0] - 1
		}
		lg = g.WithMarker(inputs, marker, pos)
	}
	if sameAttr {
		for i := range lg.Rules {
			lg.Rules[i].Action = 0
		}
	}
	if attrVariant == 2 {
		// one shared non-zero action, node types alternate: rules differ only in their type
		for i := range lg.Rules {
			lg.Rules[i].Action = 1
			lg.Rules[i].Type = i % 2
		}
	}
	for _, p := range prec {
		var ts []lalr.Sym
		for _, t := range p.Terms {
			ts = append(ts, lalr.Sym(t))
		}
		lg.Precedence = append(lg.Precedence, lalr.Precedence{Associativity: lalr.Associativity(p.Assoc), Terminals: ts})
	}
	var tbl *lalr.Tables
	err := core.Guard(func() { tbl, _ = lalr.Compile(lg, lalr.Options{MinimizeDFA: minimize, Optimize: optimize}) })
	return lg, tbl, err
}

type ruleClass struct {
	lhs, ln, action, typ int
}

func classOf(lg *lalr.Grammar, t *lalr.Tables, r int) ruleClass {
	return ruleClass{int(lg.Rules[r].LHS), t.RuleLen[r], lg.Rules[r].Action, lg.Rules[r].Type}
}

func tokensOf(w string) []int {
	out := make([]int, len(w))
	for i := range w {
		out[i] = int(w[i]-'a') + 1
	}
	return out
}

// lockstep compares the two traces for one input and string.
func lockstep(lg *lalr.Grammar, m0, m1 *tabinterp.Machine, in int, w string) (string, string, int) {
	t0 := m0.Run(in, tokensOf(w))
	var t1 tabinterp.Trace
	if err := core.Guard(func() { t1 = m1.Run(in, tokensOf(w)) }); err != nil {
		return "minimized:panic", err.Error(), len(t0)
	}
	if t0.Last().Kind == tabinterp.Loop {
		// the unminimized parser does not terminate on this input (conflicting grammar resolved into a
		// loop): the minimized one must not terminate either
		if t1.Last().Kind != tabinterp.Loop {
			return "outcome-differs", fmt.Sprintf("unminimized parser loops on %q, minimized: %s", w, t1), len(t0)
		}
		return "", "", len(t0)
	}
	if len(t0) != len(t1) {
		return "trace-length", fmt.Sprintf("on %q from input %d: unminimized %s / minimized %s", w, in, t0, t1), len(t0)
	}
	for i := range t0 {
		a, b := t0[i], t1[i]
		if a.Kind != b.Kind {
			return "step-kind", fmt.Sprintf("on %q from input %d step %d: unminimized %s / minimized %s", w, in, i, t0, t1), len(t0)
		}
		switch a.Kind {
		case tabinterp.Reduce:
			if classOf(lg, m0.T, a.Arg) != classOf(lg, m1.T, b.Arg) {
				return "reduce-class", fmt.Sprintf("on %q from input %d step %d: rule %d vs %d differ in (lhs,len,action,type): %s / %s", w, in, i, a.Arg, b.Arg, t0, t1), len(t0)
			}
		default:
			if a.Arg != b.Arg {
				return "step-arg", fmt.Sprintf("on %q from input %d step %d: %s / %s", w, in, i, t0, t1), len(t0)
			}
		}
	}
	return "", "", len(t0)
}

func scopes(c *core.Ctx) []gramenum.Scope {
	if c.Quick() {
		return []gramenum.Scope{
			{N: 1, T: 2, R: 3, K: 2, AllNTs: true},
			{N: 2, T: 2, R: 3, K: 2, AllNTs: true},
			{N: 1, T: 2, R: 3, K: 3, AllNTs: true},
		}
	}
	return []gramenum.Scope{
		{N: 1, T: 2, R: 4, K: 2, AllNTs: true},
		{N: 2, T: 2, R: 4, K: 2, AllNTs: true},
		{N: 1, T: 2, R: 3, K: 3, AllNTs: true},
		{N: 2, T: 2, R: 3, K: 3, AllNTs: true},
		{N: 3, T: 2, R: 4, K: 2, AllNTs: true},
		{N: 2, T: 3, R: 4, K: 2, AllNTs: true},
	}
}

func run(c *core.Ctx) {
	L := 4
	if !c.Quick() {
		L = 5
	}
	c.Set("L", L)
	c.Rule("every rule set of the scope (conflicting grammars included, as with %expect) x 4-8 input configurations (several inputs, no-eoi, duplicated no-eoi inputs = synthetic lookahead inputs) x rule attributes {all distinct, all equal, one action + alternating node types} x optimizeTables{off,on}, plus the wide-alphabet family (33-36 terminals, symbols 30-32 apart), the long-rule family (48 grammars, rule length 3..10, strings up to length 11) and the operator family (25 expression grammars x 28 precedence declarations incl. %nonassoc): MinimizeDFA off vs on started at every input index, every token string <= L; non-trivial = compile where minimization actually merged states; states = distinct lock-step configurations (input, trace prefix), transitions = parser steps compared")
	var merged, states, transitions, markerChecks int64
	processX := func(g *gramenum.Gram, L int, prec []precDecl, cfgs [][]gramenum.Input) {
		for _, inputs := range cfgs {
			for _, same := range []bool{false, true} {
				for _, optz := range []bool{false, true} {
					for marker := -2; marker < len(g.Rules); marker++ {
						if marker >= 0 && (!same || optz) {
							continue // marker variants: equal rule attributes only (that is where lengths decide the classes)
						}
						if marker == -2 && (same || optz) {
							continue // attribute variant "same non-zero action, alternating node type": once
						}
						positions := []int{0}
						if marker >= 0 {
							for q := 0; q < len(g.Rules[marker].RHS); q++ {
								positions = append(positions, q+1) // marker before symbol q
							}
						}
						for _, mpos := range positions {
							lg, t0, e0 := buildM(g, inputs, same, false, optz, marker, prec, mpos)
							_, t1, e1 := buildM(g, inputs, same, true, optz, marker, prec, mpos)
							base := caseT{g.String(), g, inputs, same, optz, 0, "", marker, prec, L, mpos}
							if e0 != nil || e1 != nil {
								err := e0
								if err == nil {
									err = e1
								}
								c.Violate("panic:"+core.PanicSite(err), err.Error()+" :: "+g.String(), base)
								continue
							}
							c.Eval(1)
							if t1.NumStates < t0.NumStates && marker == -1 {
								atomic.AddInt64(&merged, 1)
								c.Outcome("states-merged", 1)
							} else {
								c.Outcome("nothing-to-merge", 1)
								if optz {
									continue // identical tables; the optimized decode is C05's business
								}
							}
							m0 := &tabinterp.Machine{T: t0, Terms: g.T + 1, Optimized: optz}
							m1 := &tabinterp.Machine{T: t1, Terms: g.T + 1, Optimized: optz}
							seen := map[string]bool{}
							var steps int64
							for in := range inputs {
								gramenum.AllStrings(g.T, L, func(w string) {
									key, msg, n := lockstep(lg, m0, m1, in, w)
									steps += int64(n)
									seen[fmt.Sprint(in, w)] = true
									if key != "" {
										k := base
										k.Input, k.W = in, w
										c.Violate(key, msg+" :: "+g.String()+fmt.Sprintf(" inputs=%v sameAttr=%v optimize=%v markerAfterRule=%d prec=%v", inputs, same, optz, marker, prec), k)
									}
								})
							}
							atomic.AddInt64(&states, int64(len(seen)))
							atomic.AddInt64(&transitions, steps)
							if marker >= 0 {
								if msg := markerMismatch(t0, t1, g.T+1+g.N, len(inputs)); msg != "" {
									k := base
									c.Violate("marker-membership", msg+" :: "+g.String()+fmt.Sprintf(" inputs=%v markerInRule=%d markerPos=%d", inputs, marker, mpos-1), k)
								}
								atomic.AddInt64(&markerChecks, 1)
							}
						}
					}
				}
			}
		}
	}
	process := func(g *gramenum.Gram) { processX(g, L, nil, configs(g)) }

	// Family "long rules": the number of partition-refinement rounds the minimizer needs grows with
	// the length of the longest chain of states, not with the number of symbols; rules much longer
	// than the symbol table (1 nonterminal, 1-2 terminals, rule length up to 10) with every string
	// up to one token longer than the longest rule.
	tFam := time.Now()
	long := longFamily()
	core.ParallelFor(len(long), 16, func(i int) {
		g := long[i]
		maxLen := 0
		for _, r := range g.Rules {
			maxLen = max(maxLen, len(r.RHS))
		}
		processX(g, maxLen+1, nil, configs(g)[:2])
	})
	c.Add("long_rule_family_grammars", int64(len(long)))
	c.Set("long_rule_family_wall_s", int(time.Since(tFam).Seconds()))
	tFam = time.Now()

	// Family "wide alphabets": the refinement keys of the minimizer are hashed with a multiplier of
	// 31, so symbol numbers 31 apart are where an aliasing or hashing mistake in the partition
	// signatures shows: 33-36 terminals, X1: a z | b c | X2; X2: b with c and z = c+30..c+32 apart.
	wide := wideFamily()
	core.ParallelFor(len(wide), 16, func(i int) {
		if c.Expired() {
			c.Capped("wide-alphabet family not completed (budget)")
			return
		}
		processX(wide[i], 3, nil, configs(wide[i])[:1])
	})
	c.Add("wide_alphabet_family_grammars", int64(len(wide)))

	// Family "operators": expression grammars under every precedence declaration over the two
	// operators (left/right/nonassoc, one or two groups): %nonassoc leaves explicit error entries
	// in the lookahead lists, which are part of a state's signature.
	ops := operatorFamily()
	precs := precSpaces()
	type opJob struct {
		g    *gramenum.Gram
		prec []precDecl
	}
	var jobs []opJob
	for _, g := range ops {
		for _, pr := range precs {
			jobs = append(jobs, opJob{g, pr})
		}
	}
	core.ParallelFor(len(jobs), 16, func(i int) {
		if c.Expired() {
			c.Capped("operator family not completed (budget)")
			return
		}
		processX(jobs[i].g, 5, jobs[i].prec, configs(jobs[i].g)[:2])
	})
	c.Add("operator_family_cases", int64(len(jobs)))
	c.Set("operator_family_wall_s", int(time.Since(tFam).Seconds()))

	for _, sc := range scopes(c) {
		if c.Expired() {
			c.Capped(fmt.Sprintf("scope %+v not started (budget)", sc))
			continue
		}
		const block = 512
		var batch []*gramenum.Gram
		stopped := false
		flush := func() {
			gs := batch
			batch = nil
			core.ParallelFor(len(gs), 16, func(i int) { process(gs[i]) })
		}
		n := gramenum.Enumerate(sc, func(idx int, g *gramenum.Gram) bool {
			batch = append(batch, g.Clone())
			if len(batch) >= block {
				flush()
				if c.Expired() {
					stopped = true
					return false
				}
			}
			return true
		})
		flush()
		if stopped {
			c.Capped(fmt.Sprintf("scope %+v stopped after %d grammars (budget)", sc, n))
		}
		c.Add("grammars", int64(n))
	}
	c.Set("marker_membership_checks", markerChecks)
	c.Nontrivial(merged)
	c.States(states)
	c.Transitions(transitions)
	c.Traces(0)
	c.Assume("traces are produced by internal/tabinterp, the transcription of the generated parser loop that C01 Layer B validates against generated code")
	c.Sample(map[string]any{"grammar": "X1: ta; X1: tb X1", "inputs": "X1 no-eoi, X1 no-eoi (as produced by '%input X1 no-eoi' plus a (?= X1) lookahead)"})
}

// longFamily: one nonterminal X1 (symbol T+1) with 1-2 rules of length n = 3..10.
func longFamily() []*gramenum.Gram {
	rep := func(sym, n int) []int {
		out := make([]int, n)
		for i := range out {
			out[i] = sym
		}
		return out
	}
	var out []*gramenum.Gram
	for n := 3; n <= 10; n++ {
		// X1: a^n                                  (1 terminal: the smallest symbol table)
		out = append(out, &gramenum.Gram{T: 1, N: 1, Rules: []gramenum.Rule{{LHS: 2, RHS: rep(1, n)}}})
		// X1: a^n | a^(n-1)                        (two lengths)
		out = append(out, &gramenum.Gram{T: 1, N: 1, Rules: []gramenum.Rule{{LHS: 2, RHS: rep(1, n)}, {LHS: 2, RHS: rep(1, n-1)}}})
		// X1: a a^(n-2) b | b a^(n-2) a            (two chains that differ only at their ends)
		r1 := append(append([]int{1}, rep(1, n-2)...), 2)
		r2 := append(append([]int{2}, rep(1, n-2)...), 1)
		out = append(out, &gramenum.Gram{T: 2, N: 1, Rules: []gramenum.Rule{{LHS: 3, RHS: r1}, {LHS: 3, RHS: r2}}})
		// X1: a^n | b^n
		out = append(out, &gramenum.Gram{T: 2, N: 1, Rules: []gramenum.Rule{{LHS: 3, RHS: rep(1, n)}, {LHS: 3, RHS: rep(2, n)}}})
		// X1: a^n | b a^(n-1)                      (chains of equal tails entered at different depths)
		out = append(out, &gramenum.Gram{T: 2, N: 1, Rules: []gramenum.Rule{{LHS: 3, RHS: rep(1, n)}, {LHS: 3, RHS: append([]int{2}, rep(1, n-1)...)}}})
		// X1: a^(n-1) b | a^(n-2) b b
		out = append(out, &gramenum.Gram{T: 2, N: 1, Rules: []gramenum.Rule{{LHS: 3, RHS: append(rep(1, n-1), 2)}, {LHS: 3, RHS: append(rep(1, n-2), 2, 2)}}})
	}
	return out
}

// wideFamily: see run().
func wideFamily() []*gramenum.Gram {
	var out []*gramenum.Gram
	for _, T := range []int{33, 35, 36} {
		for cpos := 3; cpos <= 4; cpos++ {
			for d := 30; d <= 32; d++ {
				z := cpos + d
				if z > T {
					continue
				}
				x1, x2 := T+1, T+2
				out = append(out, &gramenum.Gram{T: T, N: 2, Rules: []gramenum.Rule{
					{LHS: x1, RHS: []int{1, z}},
					{LHS: x1, RHS: []int{2, cpos}},
					{LHS: x1, RHS: []int{x2}},
					{LHS: x2, RHS: []int{2}},
				}})
			}
		}
	}
	return out
}

// operatorFamily: terminals 1 = x (atom), 2 = p, 3 = q; nonterminal 4 = E.
func operatorFamily() []*gramenum.Gram {
	shapes := [][]int{{4, 2, 4}, {4, 3, 4}, {2, 4}, {4, 2}, {4, 2, 4, 3, 4}}
	var out []*gramenum.Gram
	n := len(shapes)
	for mask := 1; mask < 1<<n; mask++ {
		cnt := 0
		for i := 0; i < n; i++ {
			if mask>>i&1 == 1 {
				cnt++
			}
		}
		if cnt > 3 {
			continue
		}
		g := &gramenum.Gram{T: 3, N: 1}
		for i := 0; i < n; i++ {
			if mask>>i&1 == 1 {
				g.Rules = append(g.Rules, gramenum.Rule{LHS: 4, RHS: shapes[i]})
			}
		}
		g.Rules = append(g.Rules, gramenum.Rule{LHS: 4, RHS: []int{1}})
		out = append(out, g)
	}
	return out
}

// precSpaces: the operators p (2) and q (3) each in no group, group 1 or group 2 (canonical
// order), every associativity per used group.
func precSpaces() [][]precDecl {
	var out [][]precDecl
	for ap := 0; ap <= 2; ap++ {
		for aq := 0; aq <= 2; aq++ {
			var g1, g2 []int
			for t, v := range map[int]int{2: ap, 3: aq} {
				switch v {
				case 1:
					g1 = append(g1, t)
				case 2:
					g2 = append(g2, t)
				}
			}
			sort.Ints(g1)
			sort.Ints(g2)
			if len(g1) == 0 && len(g2) > 0 {
				continue
			}
			switch {
			case len(g1) == 0:
				out = append(out, nil)
			case len(g2) == 0:
				for a := 0; a < 3; a++ {
					out = append(out, []precDecl{{a, g1}})
				}
			default:
				for a := 0; a < 3; a++ {
					for b := 0; b < 3; b++ {
						out = append(out, []precDecl{{a, g1}, {b, g2}})
					}
				}
			}
		}
	}
	return out
}

// markerMismatch pairs the states of both automata by walking their goto graphs in parallel from
// every entry state; a marker (e.g. .recoveryScope) must hold in a state of the minimized
// automaton exactly when it holds in the states it stands for.
func markerMismatch(t0, t1 *lalr.Tables, nsyms, inputs int) string {
	in := func(t *lalr.Tables, m, s int) bool {
		for _, x := range t.Markers[m].States {
			if x == s {
				return true
			}
		}
		return false
	}
	m0 := &tabinterp.Machine{T: t0, Terms: 0}
	m1 := &tabinterp.Machine{T: t1, Terms: 0}
	type pair struct{ a, b int }
	seen := map[pair]bool{}
	var queue []pair
	for i := 0; i < inputs; i++ {
		queue = append(queue, pair{i, i})
		seen[pair{i, i}] = true
	}
	for len(queue) > 0 {
		p := queue[0]
		queue = queue[1:]
		for m := range t0.Markers {
			if m < len(t1.Markers) && in(t0, m, p.a) != in(t1, m, p.b) {
				return fmt.Sprintf("marker %q: unminimized state %d marked=%v, the minimized state %d that stands for it marked=%v", t0.Markers[m].Name, p.a, in(t0, m, p.a), p.b, in(t1, m, p.b))
			}
		}
		for sym := 0; sym < nsyms; sym++ {
			a := m0.Goto(p.a, sym)
			if a < 0 {
				continue
			}
			b := m1.Goto(p.b, sym)
			if b < 0 {
				continue // a missing transition is reported by the lock-step runs
			}
			if q := (pair{a, b}); !seen[q] {
				seen[q] = true
				queue = append(queue, q)
			}
		}
	}
	return ""
}

func replay(c *core.Ctx, raw json.RawMessage) error {
	var k caseT
	if err := json.Unmarshal(raw, &k); err != nil {
		return err
	}
	lg, t0, e0 := buildM(k.G, k.Inputs, k.SameAttr, false, k.Optimize, k.Marker, k.Prec, k.MarkerPos)
	_, t1, e1 := buildM(k.G, k.Inputs, k.SameAttr, true, k.Optimize, k.Marker, k.Prec, k.MarkerPos)
	if e0 != nil || e1 != nil {
		return fmt.Errorf("panic: %v %v", e0, e1)
	}
	m0 := &tabinterp.Machine{T: t0, Terms: k.G.T + 1, Optimized: k.Optimize}
	m1 := &tabinterp.Machine{T: t1, Terms: k.G.T + 1, Optimized: k.Optimize}
	if k.W == "" && k.Marker >= 0 {
		if msg := markerMismatch(t0, t1, k.G.T+1+k.G.N, len(k.Inputs)); msg != "" {
			return fmt.Errorf("marker-membership: %s", msg)
		}
	}
	if key, msg, _ := lockstep(lg, m0, m1, k.Input, k.W); key != "" {
		return fmt.Errorf("%s: %s", key, msg)
	}
	return nil
}
