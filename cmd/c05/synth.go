package main

import (
	"fmt"
	"sync/atomic"

	"github.com/inspirer/textmapper/lalr"

	"verif/internal/core"
)

// Synthetic tables: the packer of lalr.Optimize de-duplicates rows through a cache keyed by a
// polynomial hash of the row, (((p1*31+v1)*31+p2)*31+v2 ...), which collides for rows that are
// different but "31 apart" ((p, v) vs (p+1, v-31)). Whether two colliding rows are kept apart
// depends on concrete state and rule NUMBERS (a shift to state 29 is the value -31, reduce rule 0
// the value 0), which grammars of the enumerated sizes never reach. This family therefore builds
// the default encoding directly: an automaton with N states of which two (or three) are lookahead
// states whose rows range over every choice of two positions and two actions from a small
// alphabet that contains such collisions, the remaining states being plain error states; both
// encodings must decode to the same action in every (state, terminal) cell.

type synthEntry struct {
	Pos int `json:"pos"` // terminal
	Act int `json:"act"` // >= 0: reduce rule, < 0: shift to state -1-Act
}

type synthCase struct {
	N    int            `json:"n"` // states
	Rows [][]synthEntry `json:"rows"`
}

const synthTerms = 6
const synthRules = 3

func (s *synthCase) tables(defaultReduce bool) *lalr.Tables {
	enc := &lalr.DefaultEnc{Action: make([]int, s.N)}
	for i := range enc.Action {
		enc.Action[i] = -2
	}
	type edge struct{ from, to int }
	bySym := make([][]edge, synthTerms+1)
	for st, row := range s.Rows {
		enc.Action[st] = -3 - len(enc.Lalr)
		for _, e := range row {
			if e.Act >= 0 {
				enc.Lalr = append(enc.Lalr, e.Pos, e.Act)
			} else {
				enc.Lalr = append(enc.Lalr, e.Pos, -1)
				bySym[e.Pos] = append(bySym[e.Pos], edge{st, -1 - e.Act})
			}
		}
		enc.Lalr = append(enc.Lalr, -1, -2)
	}
	for sym := 0; sym <= synthTerms; sym++ {
		enc.Goto = append(enc.Goto, len(enc.FromTo))
		for _, e := range bySym[sym] { // rows are visited in state order: sorted by from
			enc.FromTo = append(enc.FromTo, e.from, e.to)
		}
	}
	enc.Goto = append(enc.Goto, len(enc.FromTo))
	t := &lalr.Tables{DefaultEnc: enc, NumStates: s.N, RuleLen: make([]int, synthRules)}
	t.Optimized = lalr.Optimize(enc, synthTerms, synthRules, defaultReduce)
	return t
}

func synthCheck(s *synthCase, defaultReduce bool, cnt *counters) (key, msg string) {
	var t *lalr.Tables
	if err := core.Guard(func() { t = s.tables(defaultReduce) }); err != nil {
		return "panic:" + core.PanicSite(err), err.Error()
	}
	return checkTables(t, synthTerms, synthTerms+1, defaultReduce, cnt)
}

// synthFamily enumerates the rows. quick: positions 1..5, actions {shift 28, shift 29, reduce 0,
// reduce 1}; thorough: shifts to 27..30 and reduces 0..2, and a third row.
func synthFamily(c *core.Ctx, cnt *counters) {
	acts := []int{-1 - 28, -1 - 29, 0, 1}
	if !c.Quick() {
		acts = []int{-1 - 27, -1 - 28, -1 - 29, -1 - 30, 0, 1, 2}
	}
	var rows [][]synthEntry
	for p1 := 1; p1 < synthTerms; p1++ {
		for p2 := p1 + 1; p2 < synthTerms; p2++ {
			for _, a1 := range acts {
				for _, a2 := range acts {
					rows = append(rows, []synthEntry{{p1, a1}, {p2, a2}})
				}
			}
		}
	}
	const N = 34
	var tables, collisions int64
	core.ParallelFor(len(rows), 16, func(i int) {
		if c.Expired() {
			c.Capped("synthetic packer family not completed (budget)")
			return
		}
		for j := range rows {
			for _, dr := range []bool{false, true} {
				s := &synthCase{N: N, Rows: [][]synthEntry{rows[i], rows[j]}}
				atomic.AddInt64(&tables, 1)
				if i != j && rowHash(rows[i]) == rowHash(rows[j]) {
					atomic.AddInt64(&collisions, 1)
				}
				if key, msg := synthCheck(s, dr, cnt); key != "" {
					if dr {
						key += ":defaultReduce"
					}
					c.Violate("synthetic:"+key, msg+fmt.Sprintf(" :: synthetic tables, %d states, lookahead rows %v (pos, act>=0 reduce / -1-state shift)", N, s.Rows), caseT{Grammar: "synthetic", DefaultReduce: dr, Synth: s})
				}
			}
		}
	})
	c.Eval(tables)
	c.Set("synthetic_tables", tables)
	c.Set("synthetic_row_pairs_with_colliding_packer_hash", collisions)
}

// rowHash mirrors the packer's hash over the (terminal, value) pairs of a row whose default is
// error (value of a shift to state s is -2-s), only to COUNT the colliding pairs of the family.
func rowHash(row []synthEntry) int {
	h := 0
	for _, e := range row {
		v := e.Act
		if v < 0 {
			v = -2 - (-1 - e.Act)
		}
		h = h*31 + e.Pos
		h = h*31 + v
	}
	return h
}
