// C05: compressed parser tables decode to the same actions.
// For every grammar of the scope (conflicting ones included) x input configuration, the
// displacement encoding produced by lalr.Optimize is decoded for EVERY (state, terminal) and
// (state, nonterminal) pair with the template's lookup code (internal/tabinterp) and compared
// with the default encoding of the same compile.
package main

import (
	"encoding/json"
	"fmt"
	"sync/atomic"

	"github.com/inspirer/textmapper/lalr"

	"verif/internal/core"
	"verif/internal/gramenum"
	"verif/internal/tabinterp"
)

type caseT struct {
	Grammar       string           `json:"grammar"`
	G             *gramenum.Gram   `json:"g"`
	Inputs        []gramenum.Input `json:"inputs"`
	Prec          []lalr.Precedence `json:"prec,omitempty"`
	DefaultReduce bool             `json:"default_reduce"`
	Minimize      bool             `json:"minimize"`
	Synth         *synthCase       `json:"synth,omitempty"`
}

func main() { core.Main("C05", "exploration", run, replay, nil) }

type counters struct{ cells, gotos, defred, nonassoc, lalrStates int64 }

// checkTables compares both encodings of tbl. Returns key, msg.
func checkTables(tbl *lalr.Tables, terms, nsyms int, defaultReduce bool, cnt *counters) (string, string) {
	def := &tabinterp.Machine{T: tbl, Terms: terms}
	opt := &tabinterp.Machine{T: tbl, Terms: terms, Optimized: true}
	for state := 0; state < tbl.NumStates; state++ {
		act := tbl.Action[state]
		// the state's most frequent reduction among its lookahead entries (ties: lowest rule)
		mostFrequent := -1
		nonassoc := map[int]bool{}
		if act < -2 {
			atomic.AddInt64(&cnt.lalrStates, 1)
			count := map[int]int{}
			for a := -act - 3; tbl.Lalr[a] >= 0; a += 2 {
				switch v := tbl.Lalr[a+1]; {
				case v >= 0:
					count[v]++
				case v == -2:
					nonassoc[tbl.Lalr[a]] = true
				}
			}
			best := 0
			for r := 0; r < len(tbl.RuleLen); r++ {
				if count[r] > best {
					best, mostFrequent = count[r], r
				}
			}
		}
		for term := 0; term < terms; term++ {
			k1, a1, _ := def.Decide(state, term, nil)
			var k2, a2 int
			var perr error
			perr = core.Guard(func() { k2, a2, _ = opt.Decide(state, term, nil) })
			if perr != nil {
				return "decode:out-of-range", fmt.Sprintf("decoding state %d terminal %d panics: %v", state, term, perr)
			}
			atomic.AddInt64(&cnt.cells, 1)
			if k1 == k2 && a1 == a2 {
				continue
			}
			if defaultReduce && k1 == tabinterp.ActError && k2 == tabinterp.ActReduce {
				if nonassoc[term] {
					return "defaultreduce:nonassoc-error-lost", fmt.Sprintf("state %d terminal %d: %%nonassoc error became reduce %d", state, term, a2)
				}
				if act < -2 && a2 == mostFrequent {
					atomic.AddInt64(&cnt.defred, 1)
					continue
				}
				return "defaultreduce:not-most-frequent", fmt.Sprintf("state %d terminal %d: error became reduce %d, the state's most frequent reduction is %d", state, term, a2, mostFrequent)
			}
			if k1 == tabinterp.ActError && k2 == tabinterp.ActShift {
				return "error-became-shift", fmt.Sprintf("state %d terminal %d: error in the default encoding, shift to %d in the compressed one", state, term, a2)
			}
			return "action-differs", fmt.Sprintf("state %d terminal %d: default encoding (%s) vs compressed (%s)", state, term, actStr(k1, a1), actStr(k2, a2))
		}
		for nt := terms; nt < nsyms; nt++ {
			g1 := def.Goto(state, nt)
			if g1 < 0 {
				continue
			}
			var g2 int
			if perr := core.Guard(func() { g2 = opt.Goto(state, nt) }); perr != nil {
				return "decode:out-of-range", fmt.Sprintf("goto of state %d nonterminal %d panics: %v", state, nt, perr)
			}
			atomic.AddInt64(&cnt.gotos, 1)
			if g1 != g2 {
				return "goto-differs", fmt.Sprintf("state %d nonterminal %d: goto %d vs compressed %d", state, nt, g1, g2)
			}
		}
		// gotoState on terminals (used for shifts in recovery and by reduceAll)
		for term := 0; term < terms; term++ {
			g1 := def.Goto(state, term)
			if act >= 0 || act == -2 {
				continue // template never shifts from these states via gotoState in the default encoding
			}
			k, a, _ := def.Decide(state, term, nil)
			var g2 int
			if perr := core.Guard(func() { g2 = opt.Goto(state, term) }); perr != nil {
				return "decode:out-of-range", fmt.Sprintf("terminal goto of state %d terminal %d panics: %v", state, term, perr)
			}
			want := -1
			if k == tabinterp.ActShift {
				want = a
			}
			_ = g1
			if g2 != want {
				return "terminal-goto-differs", fmt.Sprintf("state %d terminal %d: compressed gotoState=%d, shift target %d", state, term, g2, want)
			}
		}
	}
	return "", ""
}

func actStr(k, a int) string {
	switch k {
	case tabinterp.ActReduce:
		return fmt.Sprintf("reduce %d", a)
	case tabinterp.ActShift:
		return fmt.Sprintf("shift %d", a)
	}
	return "error"
}

func scopes(c *core.Ctx) []gramenum.Scope {
	if c.Quick() {
		return []gramenum.Scope{
			{N: 1, T: 2, R: 4, K: 2, AllNTs: true},
			{N: 2, T: 2, R: 3, K: 2, AllNTs: true},
			{N: 1, T: 2, R: 3, K: 3, AllNTs: true},
			{N: 1, T: 3, R: 3, K: 2, AllNTs: true},
		}
	}
	return []gramenum.Scope{
		{N: 1, T: 2, R: 4, K: 2, AllNTs: true},
		{N: 2, T: 2, R: 4, K: 2, AllNTs: true},
		{N: 1, T: 2, R: 4, K: 3, AllNTs: true},
		{N: 1, T: 3, R: 4, K: 2, AllNTs: true},
		{N: 2, T: 2, R: 3, K: 3, AllNTs: true},
		{N: 3, T: 2, R: 4, K: 2, AllNTs: true},
		{N: 2, T: 3, R: 4, K: 2, AllNTs: true},
		{N: 2, T: 2, R: 5, K: 2, AllNTs: true},
	}
}

// precVariants returns precedence declarations to try (nil = none). With precedence some
// cells become %nonassoc errors, which the defaultReduce rule must preserve.
func precVariants(g *gramenum.Gram) [][]lalr.Precedence {
	out := [][]lalr.Precedence{nil}
	if g.T >= 2 {
		out = append(out,
			[]lalr.Precedence{{Associativity: lalr.NonAssoc, Terminals: []lalr.Sym{1, 2}}},
			[]lalr.Precedence{{Associativity: lalr.Left, Terminals: []lalr.Sym{1}}, {Associativity: lalr.NonAssoc, Terminals: []lalr.Sym{2}}},
		)
	}
	return out
}

func compileAndCheck(k caseT, cnt *counters) (string, string) {
	lg := k.G.ToLalr(k.Inputs)
	lg.Precedence = k.Prec
	var tbl *lalr.Tables
	if err := core.Guard(func() {
		tbl, _ = lalr.Compile(lg, lalr.Options{Optimize: true, DefaultReduce: k.DefaultReduce, MinimizeDFA: k.Minimize})
	}); err != nil {
		return "panic:" + core.PanicSite(err), err.Error()
	}
	if tbl.Optimized == nil {
		return "no-optimized-tables", "Optimize requested but Tables.Optimized is nil"
	}
	return checkTables(tbl, k.G.T+1, k.G.T+k.G.N+1, k.DefaultReduce, cnt)
}

func run(c *core.Ctx) {
	c.Rule("every rule set of the scope (raw, conflicting grammars included; terminal symmetry broken) x input configurations x {no precedence, two precedence declarations with %nonassoc} x defaultReduce{off,on} x minimizeDFA{off,on}: every (state,terminal) action, every defined (state,nonterminal) goto and every terminal gotoState decoded from the compressed tables vs the default encoding; plus scaled families (wide/deep/many terminals) reaching int16 tables and the binary-search goto; plus synthetic default-encoding tables (34 states, two lookahead rows over all position pairs and an action alphabet containing packer-hash collisions); non-trivial = compile with >=1 lookahead-dependent state")
	var cnt counters
	var nontrivial int64
	process := func(g *gramenum.Gram) {
		for _, inputs := range gramenum.InputConfigs(g) {
			for pi, prec := range precVariants(g) {
				for _, dr := range []bool{false, true} {
					for _, mn := range []bool{false, true} {
						k := caseT{g.String(), g, inputs, prec, dr, mn, nil}
						before := atomic.LoadInt64(&cnt.lalrStates)
						key, msg := compileAndCheck(k, &cnt)
						c.Eval(1)
						if key != "" {
							if dr {
								key += ":defaultReduce"
							}
							c.Violate(key, msg+" :: "+g.String()+fmt.Sprintf(" inputs=%v prec#%d min=%v", inputs, pi, mn), k)
						}
						if atomic.LoadInt64(&cnt.lalrStates) > before && pi == 0 && !dr && !mn {
							atomic.AddInt64(&nontrivial, 1)
						}
					}
				}
			}
		}
	}
	synthFamily(c, &cnt)
	for _, fam := range families(c.Quick()) {
		process(fam)
		c.Add("family_grammars", 1)
	}
	for _, sc := range scopes(c) {
		if c.Expired() {
			c.Capped(fmt.Sprintf("scope %+v not started (budget)", sc))
			continue
		}
		const block = 1024
		var batch []*gramenum.Gram
		stopped := false
		flush := func() {
			gs := batch
			batch = nil
			core.ParallelFor(len(gs), 16, func(i int) { process(gs[i]) })
		}
		n := gramenum.Enumerate(sc, func(idx int, g *gramenum.Gram) bool {
			batch = append(batch, g.Clone())
			if len(batch) >= block {
				flush()
				if c.Expired() {
					stopped = true
					return false
				}
			}
			return true
		})
		flush()
		if stopped {
			c.Capped(fmt.Sprintf("scope %+v stopped after %d grammars (budget)", sc, n))
		}
		c.Add("grammars", int64(n))
	}
	c.Nontrivial(nontrivial)
	c.Set("cells_compared", cnt.cells)
	c.Set("gotos_compared", cnt.gotos)
	c.Set("errors_turned_into_default_reduction", cnt.defred)
	c.Outcome("cell-equal", cnt.cells-cnt.defred)
	c.Outcome("cell-default-reduced", cnt.defred)
	c.Sample(map[string]any{"grammar": "X1: ta ta; X1: tb tb", "inputs": "X1 eoi", "note": "two single-pair rows that must not share a displacement base"})
}

// families returns scaled grammars that reach large tables.
func families(quick bool) []*gramenum.Gram {
	var out []*gramenum.Gram
	maxN := 24
	if quick {
		maxN = 12
	}
	for n := 2; n <= maxN; n++ {
		// wide(n): X1: t_i X2 t_i for every terminal i; X2: t1 | X2 t1  (n left contexts for X2)
		g := &gramenum.Gram{T: n, N: 2}
		for i := 1; i <= n; i++ {
			g.Rules = append(g.Rules, gramenum.Rule{LHS: n + 1, RHS: []int{i, n + 2, i}})
		}
		g.Rules = append(g.Rules, gramenum.Rule{LHS: n + 2, RHS: []int{1}}, gramenum.Rule{LHS: n + 2, RHS: []int{n + 2, 1}})
		out = append(out, g)
		// chain(n): X_i: X_{i+1} | t_i X_i ; last: t_n
		h := &gramenum.Gram{T: n, N: n}
		for i := 1; i <= n; i++ {
			if i < n {
				h.Rules = append(h.Rules, gramenum.Rule{LHS: n + i, RHS: []int{n + i + 1}})
			}
			h.Rules = append(h.Rules, gramenum.Rule{LHS: n + i, RHS: []int{i, n + i}})
		}
		h.Rules = append(h.Rules, gramenum.Rule{LHS: 2 * n, RHS: []int{n}})
		out = append(out, h)
		// expr(n): X1: X1 t_i X1 for every operator i | t1  (heavily conflicting; many reductions per state)
		e := &gramenum.Gram{T: n, N: 1}
		for i := 2; i <= n; i++ {
			e.Rules = append(e.Rules, gramenum.Rule{LHS: n + 1, RHS: []int{n + 1, i, n + 1}})
		}
		e.Rules = append(e.Rules, gramenum.Rule{LHS: n + 1, RHS: []int{1}})
		out = append(out, e)
	}
	return out
}

func replay(c *core.Ctx, raw json.RawMessage) error {
	var k caseT
	if err := json.Unmarshal(raw, &k); err != nil {
		return err
	}
	var cnt counters
	if k.Synth != nil {
		if key, msg := synthCheck(k.Synth, k.DefaultReduce, &cnt); key != "" {
			return fmt.Errorf("%s: %s", key, msg)
		}
		return nil
	}
	if key, msg := compileAndCheck(k, &cnt); key != "" {
		return fmt.Errorf("%s: %s", key, msg)
	}
	return nil
}
