// C28: symbol names map to valid target identifiers.
//
// Enumerated (bounded exhaustive, simplest first):
//
//	A. every spelling the tm syntax admits as a symbol name, taken from
//	     - unquoted names over {a,B,_,-,1} (admitted by the tm ID rule
//	       [a-zA-Z_]([a-zA-Z_\-0-9]*[a-zA-Z_0-9])?), length <= 3 (thorough: <= 4),
//	     - quoted names '...' (tm quoted_id) and "..." (tm scon) whose content is a string over the
//	       raw characters {a,B,_,-,1,+,\,',",é} of length <= 2 (thorough: <= 3) admitted by
//	       '([^\n\\']|\\.)*' resp. "([^\n\\"]|\\.)*",
//	   through ident.Produce in all four casing styles;
//	B. every such spelling declared alone in a minimal grammar, as a terminal and as a nonterminal
//	   (the tm syntax admits quoted names for terminals only; the quoted nonterminal declarations are
//	   still tried, the real parser rejects them);
//	C. every unordered pair of declarations of B (quick: unquoted length <= 2, quoted content <= 2;
//	   thorough: unquoted <= 3, quoted content <= 2, both declaration orders) together in one grammar.
//
// Violation keys: empty-id:<term|nonterm|produce>:<no-alnum|empty-quotes|other>,
// invalid-id:<term|nonterm|produce:quoted|produce:unquoted>:<leading-digit|bad-char|blank>, dup-id:<kind>+<kind>,
// style:produce:<style>, panic:<where>:<site>.
//
//	D. explicit lexeme IDs (name (ID): /re/): a terminal with an explicit ID alone, next to a second one,
//	   next to every small terminal / nonterminal in both declaration orders, in triples, and next to
//	   compiler-derived nonterminals, with coinciding and differing IDs.
//
// Oracle (B, C, D): compiler.Compile succeeds => every Syms[i].ID matches ^[A-Za-z_][A-Za-z0-9_]*$ and
// no two distinct symbols have the same ID (a collision must have produced a compile error).
// Oracle (A): the identifier matches the same pattern; the upper-case styles contain no lower-case
// letter; for unquoted names starting with a letter CamelCase starts with an upper-case and
// CamelLower with a lower-case letter. (The statement does not define the camel styles any further;
// where it is silent the implementation's spelling is accepted.)
package main

import (
	"context"
	"encoding/json"
	"fmt"
	"regexp"
	"runtime/debug"
	"strings"
	"sync"
	"sync/atomic"

	"github.com/inspirer/textmapper/compiler"
	"github.com/inspirer/textmapper/grammar"
	"github.com/inspirer/textmapper/status"
	"github.com/inspirer/textmapper/util/ident"

	"verif/internal/core"
)

func main() { core.Main("C28", "exploration", run, replay, nil) }

// ---------------------------------------------------------------------------------------------
// Enumeration of admitted spellings (reference predicates written from the tm lexer rules).

var unquotedAlphabet = []string{"a", "B", "_", "-", "1"}
var quotedAlphabet = []string{"a", "B", "_", "-", "1", "+", "\\", "'", "\"", "é"}

func isLetter(c byte) bool { return c >= 'a' && c <= 'z' || c >= 'A' && c <= 'Z' || c == '_' }
func isDigit(c byte) bool  { return c >= '0' && c <= '9' }

// admittedID mirrors ID: /[a-zA-Z_]([a-zA-Z_\-0-9]*[a-zA-Z_0-9])?/ (whole string).
func admittedID(s string) bool {
	if s == "" || !isLetter(s[0]) {
		return false
	}
	for i := 1; i < len(s); i++ {
		c := s[i]
		if !(isLetter(c) || isDigit(c) || c == '-') {
			return false
		}
	}
	last := s[len(s)-1]
	return isLetter(last) || isDigit(last)
}

// admittedQuoted mirrors q([^\n\\q]|\\.)*q on the content between the quotes.
func admittedQuoted(content []string, q string) bool {
	for i := 0; i < len(content); i++ {
		switch content[i] {
		case "\\":
			i++
			if i >= len(content) {
				return false // a lone backslash would escape the closing quote
			}
		case q:
			return false
		}
	}
	return true
}

// words enumerates all strings of exactly n letters over alphabet (first letter slowest).
func words(alphabet []string, n int, f func(w []string)) {
	w := make([]string, n)
	var rec func(i int)
	rec = func(i int) {
		if i == n {
			f(w)
			return
		}
		for _, a := range alphabet {
			w[i] = a
			rec(i + 1)
		}
	}
	rec(0)
}

type spelling struct {
	Text  string `json:"text"`  // as written in the grammar, including quotes
	Class string `json:"class"` // unquoted | squote | dquote
	Len   int    `json:"len"`   // number of alphabet letters (content length for quoted names)
}

func spellings(maxUnquoted, maxQuoted int) []spelling {
	var out []spelling
	maxLen := maxUnquoted
	if maxQuoted > maxLen {
		maxLen = maxQuoted
	}
	// Simplest first: by length, unquoted before quoted.
	for n := 0; n <= maxLen; n++ {
		if n >= 1 && n <= maxUnquoted {
			words(unquotedAlphabet, n, func(w []string) {
				s := strings.Join(w, "")
				if admittedID(s) {
					out = append(out, spelling{s, "unquoted", n})
				}
			})
		}
		if n <= maxQuoted {
			for _, q := range []string{"'", "\""} {
				class := "squote"
				if q == "\"" {
					class = "dquote"
				}
				words(quotedAlphabet, n, func(w []string) {
					if admittedQuoted(w, q) {
						out = append(out, spelling{q + strings.Join(w, "") + q, class, n})
					}
				})
			}
		}
	}
	return out
}

// ---------------------------------------------------------------------------------------------
// Oracles.

var validID = regexp.MustCompile(`^[A-Za-z_][A-Za-z0-9_]*$`)

var styles = []struct {
	s    ident.Style
	name string
}{
	{ident.CamelCase, "CamelCase"},
	{ident.CamelLower, "CamelLower"},
	{ident.UpperCase, "UpperCase"},
	{ident.UpperUnderscores, "UpperUnderscores"},
}

// idDefect classifies an identifier: "" if it is valid in all targets.
func idDefect(id string) string {
	switch {
	case id == "":
		return "empty"
	case id == "_":
		return "blank" // Go's blank identifier: can be declared, never referenced
	case validID.MatchString(id):
		return ""
	case isDigit(id[0]):
		return "leading-digit"
	}
	return "bad-char"
}

// emptyShape refines the key of an empty identifier by the shape of the offending name, so that the
// two known causes (unquoted names without any letter or digit such as _, __, _-_; empty quoted names)
// stay apart from anything new.
func emptyShape(name string) string {
	switch {
	case name == "''" || name == `""`:
		return "empty-quotes"
	case strings.Trim(name, "_-") == "":
		return "no-alnum"
	}
	return "other"
}

// checkProduce runs oracle A on one spelling; returns key, message.
func checkProduce(sp spelling) (string, string) {
	quoted := "unquoted"
	if sp.Class != "unquoted" {
		quoted = "quoted"
	}
	for _, st := range styles {
		var id string
		if err := core.Guard(func() { id = ident.Produce(sp.Text, st.s) }); err != nil {
			return "panic:produce:" + core.PanicSite(err), fmt.Sprintf("ident.Produce(%q, %s) panics: %v", sp.Text, st.name, err)
		}
		if d := idDefect(id); d != "" {
			key := "invalid-id:produce:" + quoted + ":" + d
			if d == "empty" {
				key = "empty-id:produce:" + emptyShape(sp.Text)
			}
			return key, fmt.Sprintf("ident.Produce(%q, %s) = %q is not a valid identifier (%s)", sp.Text, st.name, id, d)
		}
		switch st.s {
		case ident.UpperCase, ident.UpperUnderscores:
			if strings.ContainsAny(id, "abcdefghijklmnopqrstuvwxyz") {
				return "style:produce:" + st.name, fmt.Sprintf("ident.Produce(%q, %s) = %q contains lower-case letters", sp.Text, st.name, id)
			}
		case ident.CamelCase:
			if sp.Class == "unquoted" && sp.Text[0] != '_' && !(id[0] >= 'A' && id[0] <= 'Z') {
				return "style:produce:" + st.name, fmt.Sprintf("ident.Produce(%q, %s) = %q does not start with an upper-case letter", sp.Text, st.name, id)
			}
		case ident.CamelLower:
			if sp.Class == "unquoted" && sp.Text[0] != '_' && !(id[0] >= 'a' && id[0] <= 'z') {
				return "style:produce:" + st.name, fmt.Sprintf("ident.Produce(%q, %s) = %q does not start with a lower-case letter", sp.Text, st.name, id)
			}
		}
	}
	return "", ""
}

type decl struct {
	Kind string `json:"kind"` // term | nonterm
	Text string `json:"text"`
	ID   string `json:"id,omitempty"` // terminals only: explicit lexeme ID, written as  text (ID): /re/
}

// grammarFor builds the minimal grammar declaring the given symbols in the given order.
// Fixed helper symbols: terminal zz (ID "ZZ") and nonterminal input (ID "Input"); neither can
// collide with a name over the enumerated alphabets, nor can EOI / INVALID_TOKEN.
func grammarFor(decls []decl) string {
	var b strings.Builder
	b.WriteString("language l(go);\n:: lexer\nzz: /z/\n")
	pat := []string{"x", "y", "w"}
	nt := 0
	for _, d := range decls {
		if d.Kind == "term" {
			if d.ID != "" {
				fmt.Fprintf(&b, "%s (%s): /%s/\n", d.Text, d.ID, pat[nt%len(pat)])
			} else {
				fmt.Fprintf(&b, "%s: /%s/\n", d.Text, pat[nt%len(pat)])
			}
			nt++
		}
	}
	b.WriteString(":: parser\ninput: zz")
	for _, d := range decls {
		b.WriteString(" " + d.Text)
	}
	b.WriteString(";\n")
	body := "zz"
	for _, d := range decls {
		if d.Kind == "nonterm" {
			fmt.Fprintf(&b, "%s: %s;\n", d.Text, body)
			body += " zz"
		}
	}
	return b.String()
}

var quotedRE = regexp.MustCompile(`'[^']*'|"[^"]*"|[0-9]+`)

func msgClass(msg string) string {
	switch {
	case strings.Contains(msg, "get the same ID"):
		return "same-id"
	case strings.Contains(msg, "redeclaration of"):
		return "redeclaration"
	case strings.Contains(msg, "syntax error"):
		return "syntax-error"
	}
	m := quotedRE.ReplaceAllString(msg, "#")
	if len(m) > 48 {
		m = m[:48]
	}
	return "other:" + m
}

// checkCompile runs oracles B/C on one grammar. outcome is the class of what happened.
func checkCompile(decls []decl) (key, what, outcome string) {
	return checkText(grammarFor(decls), decls)
}

// derivedGrammars puts terminal t next to nonterminals that the compiler derives itself: a template
// instance (a<B> instantiated as a_B, identifier AB) and a nonterminal extracted from a mid-rule
// action (a$1, identifier A_1). Their identifiers must be checked against the terminals' as well.
func derivedGrammars(t string) []string {
	head := "language l(go);\n:: lexer\nzz: /z/\n" + t + ": /x/\nc: /y/\n:: parser\n"
	return []string{
		head + "%flag B;\ninput: a<+B> " + t + ";\na<B>: [B] c | [!B] zz;\n",
		head + "input: a " + t + ";\na: zz { act() } c;\n",
		head + "%flag B;\ninput: a<+B> " + t + " a<~B>;\na<B>: [B] c { act() } zz | [!B] zz;\n",
	}
}

func checkText(text string, decls []decl) (key, what, outcome string) {
	var g *grammar.Grammar
	var err error
	if perr := core.Guard(func() { g, err = compiler.Compile(context.Background(), "c28.tm", text, compiler.Params{}) }); perr != nil {
		return "panic:compile:" + core.PanicSite(perr), fmt.Sprintf("compiler.Compile panics on\n%s\n%v", text, perr), "panic"
	}
	if err != nil {
		classes := map[string]bool{}
		for _, e := range status.FromError(err) {
			classes[msgClass(e.Msg)] = true
		}
		for _, c := range []string{"syntax-error", "redeclaration", "same-id"} {
			if classes[c] {
				return "", "", "error:" + c
			}
		}
		for c := range classes {
			return "", "", "error:" + c
		}
		return "", "", "error:other"
	}
	if g == nil {
		return "nil-grammar", "Compile returned neither a grammar nor an error for\n" + text, "nil"
	}
	kindOf := func(s grammar.Symbol) string {
		if s.Index < g.NumTokens {
			return "term"
		}
		return "nonterm"
	}
	// Every declared name must have become a symbol (otherwise the grammar was not understood the way
	// this check assumes and the verdict would be vacuous).
	for _, d := range decls {
		found := false
		for _, s := range g.Syms {
			if s.Name == d.Text && kindOf(s) == d.Kind {
				found = true
			}
		}
		if !found {
			return "harness:symbol-missing", fmt.Sprintf("%s %s is not among the symbols of\n%s", d.Kind, d.Text, text), "harness"
		}
	}
	byID := map[string]grammar.Symbol{}
	for _, s := range g.Syms {
		if d := idDefect(s.ID); d != "" {
			key := "invalid-id:" + kindOf(s) + ":" + d
			if d == "empty" {
				key = "empty-id:" + kindOf(s) + ":" + emptyShape(s.Name)
			}
			return key, fmt.Sprintf("%s %s gets the identifier %q (%s) and Compile reports no error; grammar:\n%s", kindOf(s), s.Name, s.ID, d, text), "ok"
		}
		if prev, ok := byID[s.ID]; ok {
			return "dup-id:" + kindOf(prev) + "+" + kindOf(s), fmt.Sprintf("%s %s and %s %s both get the identifier %q and Compile reports no error; grammar:\n%s", kindOf(prev), prev.Name, kindOf(s), s.Name, s.ID, text), "ok"
		}
		byID[s.ID] = s
	}
	return "", "", "ok"
}

// ---------------------------------------------------------------------------------------------

type rcase struct {
	Mode  string    `json:"mode"` // produce | compile
	Sp    *spelling `json:"spelling,omitempty"`
	Decls []decl    `json:"decls,omitempty"`
	Text  string    `json:"text,omitempty"`
}

type result struct {
	key, msg, outcome string
}

func run(c *core.Ctx) {
	debug.SetGCPercent(400) // thousands of tiny compilations on 16 goroutines: the collector was half of the cost
	c.Rule("A: every admitted spelling (unquoted over {a,B,_,-,1}, '..' and \"..\" over {a,B,_,-,1,+,\\,',\",é}) x 4 ident styles; " +
		"B: each spelling declared alone as terminal and as nonterminal in a minimal grammar through compiler.Compile; " +
		"C: every pair of declarations the parser admits (B outcome is not a syntax error) in one grammar; " +
		"D: terminals with an explicit ID (every ID that can coincide with a small symbol's identifier) alone, in ordered pairs with each other and with every small terminal/nonterminal (both orders), in triples and next to compiler-derived nonterminals. Non-trivial = Compile got as far as " +
		"assigning identifiers (success, or a same-ID/redeclaration diagnostic), i.e. not a syntax error; distinct by (kind, spelling) tuple and order")
	c.Assume("the tm lexer rules ID, quoted_id and scon are as in parsers/tm/textmapper.tm (the admission predicates are re-stated from them; a spelling they wrongly admit only yields a syntax-error outcome, never a violation)")

	// bounds: base set (task statement) and, in thorough, an extended set
	baseU, baseQ := 3, 2
	extU, extQ := baseU, baseQ
	if !c.Quick() {
		extU, extQ = 4, 3
	}

	// --- A
	sps := spellings(extU, extQ)
	inBase := func(sp spelling) bool {
		if sp.Class == "unquoted" {
			return sp.Len <= baseU
		}
		return sp.Len <= baseQ
	}
	c.Set("spellings", len(sps))
	for _, sp := range sps {
		sp := sp
		key, msg := checkProduce(sp)
		c.Eval(4)
		c.Nontrivial(4)
		if key != "" {
			c.Violate(key, msg, rcase{Mode: "produce", Sp: &sp})
		}
	}
	for _, sp := range sps {
		if sp.Len >= 2 && c.SampleCount() < 3 {
			c.Sample(map[string]string{"spelling": sp.Text, "UpperCase": ident.Produce(sp.Text, ident.UpperCase), "CamelCase": ident.Produce(sp.Text, ident.CamelCase)})
		}
	}

	outcomes := map[string]int64{}
	// account reports results in enumeration order (deterministic first counterexample per key).
	account := func(tag string, decls []decl, r result) {
		if r.key != "" {
			c.Violate(r.key, r.msg, rcase{Mode: "compile", Decls: decls})
		}
		outcomes[tag+":"+r.outcome]++
		c.Eval(1)
		if r.outcome == "ok" || r.outcome == "error:same-id" || r.outcome == "error:redeclaration" {
			c.Nontrivial(1)
		}
	}

	// --- B: single declarations; also decides which declarations the real parser admits.
	type pdecl struct {
		decl
		base bool
	}
	var admitted []pdecl
	for _, kind := range []string{"term", "nonterm"} {
		res := make([]result, len(sps))
		core.ParallelFor(len(sps), 16, func(i int) {
			var r result
			r.key, r.msg, r.outcome = checkCompile([]decl{{Kind: kind, Text: sps[i].Text}})
			res[i] = r
		})
		for i, sp := range sps {
			d := decl{Kind: kind, Text: sp.Text}
			account("single:"+kind+":"+sp.Class, []decl{d}, res[i])
			if res[i].outcome != "error:syntax-error" {
				admitted = append(admitted, pdecl{d, inBase(sp)})
			}
		}
	}
	c.Sample(map[string]string{"grammar": grammarFor([]decl{{Kind: "term", Text: "'+'"}, {Kind: "nonterm", Text: "a-1"}})})

	// --- B2: every admitted unquoted terminal spelling next to compiler-derived nonterminals
	derived := 0
	for _, d := range admitted {
		if d.Kind != "term" || strings.ContainsAny(d.Text, "'\"") {
			continue
		}
		for gi, text := range derivedGrammars(d.Text) {
			key, msg, outcome := checkText(text, nil)
			derived++
			c.Eval(1)
			c.Outcome("derived:"+outcome, 1)
			if key != "" {
				c.Violate(key+":derived-nonterminal", msg, rcase{Mode: "text", Text: text})
			}
			_ = gi
		}
	}
	c.Set("derived_nonterminal_grammars", derived)

	// --- D: explicit lexeme IDs (name (ID): /re/). A terminal with an explicit ID is declared next to
	// other terminals with explicit IDs, terminals with derived IDs (unquoted and quoted), nonterminals
	// and compiler-derived nonterminals, in both declaration orders, with coinciding and differing IDs.
	explicitIDs(c, account)

	// --- E: names whose identifier equals that of a predefined symbol (eoi, invalid_token; error in flex mode)
	predefinedClashes(c)

	// --- F: the identifiers inside generated Go code
	{
		var ts, ns []string
		for _, d := range admitted {
			if !d.base {
				continue
			}
			if d.Kind == "term" {
				ts = append(ts, d.Text)
			} else {
				ns = append(ns, d.Text)
			}
		}
		generatedCode(c, ts, ns)
	}

	// --- C: pairs. Base set: unordered in quick, both orders in thorough. Extended set (thorough):
	// unordered pairs with at least one member outside the base set.
	n := len(admitted)
	c.Set("declarations_in_pairs", n)
	nbase := 0
	for _, d := range admitted {
		if d.base {
			nbase++
		}
	}
	c.Set("declarations_in_pairs_base", nbase)
	ordered := !c.Quick()
	wanted := func(i, j int) bool {
		if i == j {
			return false
		}
		if admitted[i].base && admitted[j].base {
			return ordered || i < j
		}
		return i < j
	}
	var capped atomic.Bool
	// Per row: outcome class code of every wanted pair plus the (rare) violating results, so that
	// accounting can happen in enumeration order without keeping n*n messages.
	outcomeNames := []string{"ok", "error:same-id", "error:redeclaration", "error:syntax-error"}
	var omu sync.Mutex
	code := func(o string) uint8 {
		omu.Lock()
		defer omu.Unlock()
		for i, n := range outcomeNames {
			if n == o {
				return uint8(i)
			}
		}
		if len(outcomeNames) == 255 {
			return 254
		}
		outcomeNames = append(outcomeNames, o)
		return uint8(len(outcomeNames) - 1)
	}
	type viol struct {
		j int
		r result
	}
	rows := make([][]uint8, n)
	viols := make([][]viol, n)
	core.ParallelFor(n, 16, func(i int) {
		if c.Expired() {
			capped.Store(true)
			return
		}
		row := make([]uint8, 0, n)
		for j := 0; j < n; j++ {
			if !wanted(i, j) {
				continue
			}
			var r result
			r.key, r.msg, r.outcome = checkCompile([]decl{admitted[i].decl, admitted[j].decl})
			if r.key != "" {
				viols[i] = append(viols[i], viol{j, r})
			}
			if r.outcome == "ok" {
				row = append(row, 0)
			} else {
				row = append(row, code(r.outcome))
			}
		}
		rows[i] = row
	})
	for i := 0; i < n; i++ {
		if rows[i] == nil {
			continue
		}
		k, v := 0, 0
		for j := 0; j < n; j++ {
			if !wanted(i, j) {
				continue
			}
			r := result{outcome: outcomeNames[rows[i][k]]}
			if v < len(viols[i]) && viols[i][v].j == j {
				r = viols[i][v].r
				v++
			}
			account("pair:"+admitted[i].Kind+"+"+admitted[j].Kind, []decl{admitted[i].decl, admitted[j].decl}, r)
			k++
		}
	}
	if capped.Load() {
		c.Capped("pair enumeration stopped at the time budget")
	}
	for k, v := range outcomes {
		c.Outcome(k, v)
	}
}

// explicitIDSet is every spelling usable as an explicit lexeme ID that can coincide with the
// identifier of a small symbol: the UpperCase and CamelCase identifiers of the names with <= 2 unquoted /
// <= 1 quoted letters, their lower-case spellings (the lexer compiler upper-cases an explicit ID that
// contains a lower-case letter), the unquoted names themselves and the identifiers of the built-in and
// helper symbols. Only spellings the tm ID rule admits are kept.
func explicitIDSet() []string {
	seen := map[string]bool{}
	var out []string
	add := func(id string) {
		if admittedID(id) && !seen[id] {
			seen[id] = true
			out = append(out, id)
		}
	}
	for _, sp := range spellings(2, 1) {
		if sp.Class == "unquoted" {
			add(sp.Text)
		}
		u := ident.Produce(sp.Text, ident.UpperCase)
		add(u)
		add(strings.ToLower(u))
		add(ident.Produce(sp.Text, ident.CamelCase))
	}
	for _, id := range []string{"EOI", "eoi", "INVALID_TOKEN", "invalid_token", "ERROR", "ZZ", "zz", "Input", "INPUT"} {
		add(id)
	}
	return out
}

// derivedContexts are grammars in which the compiler derives nonterminals itself (template instance
// B_F -> BF, mid-rule action B$1 -> B_1, list, optional, set, lookahead); zp stands for the declaration
// of terminal zp.
func derivedContexts(zp string) []string {
	head := "language l(go);\n:: lexer\nzz: /z/\n" + zp + "\nc: /y/\n:: parser\n"
	return []string{
		head + "%flag F;\ninput: B<+F> zp;\nB<F>: [F] c | [!F] zz;\n",
		head + "input: B zp;\nB: zz { act() } c;\n",
		head + "%flag F;\ninput: B<+F> zp B<~F>;\nB<F>: [F] c { act() } zz | [!F] zz;\n",
		head + "input: B+ zp (zz separator c)+ zp set(c | zz) zp B1;\nB: c;\nB1: (?= B) c | (?= !B) c c;\n",
	}
}

func explicitIDs(c *core.Ctx, account func(tag string, decls []decl, r result)) {
	ids := explicitIDSet()
	c.Set("explicit_ids", len(ids))
	// partners: every declaration with <= 2 unquoted / <= 1 quoted letters the parser admits
	var partners []decl
	for _, kind := range []string{"term", "nonterm"} {
		for _, sp := range spellings(2, 1) {
			if kind == "nonterm" && sp.Class != "unquoted" {
				continue // the tm syntax has no quoted nonterminals (see B)
			}
			if emptyShape(sp.Text) != "other" {
				continue // rejected on its own (no identifier can be derived): nothing to clash with
			}
			partners = append(partners, decl{Kind: kind, Text: sp.Text})
		}
	}
	var cases [][]decl
	x := func(name, id string) decl { return decl{Kind: "term", Text: name, ID: id} }
	for _, id := range ids { // alone
		cases = append(cases, []decl{x("zp", id)})
	}
	for _, id := range ids { // explicit + explicit (ordered pairs, incl. the same ID twice)
		for _, id2 := range ids {
			cases = append(cases, []decl{x("zp", id), x("zq", id2)})
		}
	}
	for _, id := range ids { // explicit + derived terminal / nonterminal, both orders
		for _, p := range partners {
			cases = append(cases, []decl{x("zp", id), p}, []decl{p, x("zp", id)})
		}
	}
	// triples: explicit + terminal + nonterminal with <= 1 letter, the explicit one first and last
	for _, id := range ids {
		for _, t := range partners {
			if t.Kind != "term" || len(strings.Trim(t.Text, "'\"")) > 1 {
				continue
			}
			for _, n := range partners {
				if n.Kind != "nonterm" || len(n.Text) > 1 {
					continue
				}
				cases = append(cases, []decl{x("zp", id), t, n}, []decl{t, x("zp", id), n})
			}
		}
	}
	res := make([]result, len(cases))
	core.ParallelFor(len(cases), 16, func(i int) {
		var r result
		r.key, r.msg, r.outcome = checkCompile(cases[i])
		if r.key != "" {
			r.key += ":explicit-id"
		}
		res[i] = r
	})
	for i, ds := range cases {
		account(fmt.Sprintf("explicit-id:%d-symbols", len(ds)), ds, res[i])
	}
	c.Sample(map[string]string{"grammar": grammarFor([]decl{x("zp", "plus"), {Kind: "term", Text: "'+'"}, {Kind: "nonterm", Text: "B"}})})

	// compiler-derived nonterminals: learn their identifiers from the real compiler, then give zp
	// each of them (and each enumerated ID) explicitly.
	n := 0
	for ci, base := range derivedContexts("zp: /x/") {
		g, err := compiler.Compile(context.Background(), "c28.tm", base, compiler.Params{})
		if err != nil || g == nil {
			c.Violate("harness:derived-context", fmt.Sprintf("context grammar %d does not compile: %v\n%s", ci, err, base), rcase{Mode: "text", Text: base})
			continue
		}
		try := append([]string{}, ids...)
		for _, s := range g.Syms[g.NumTokens:] {
			if admittedID(s.ID) {
				try = append(try, s.ID)
			}
		}
		for _, id := range try {
			text := derivedContexts("zp (" + id + "): /x/")[ci]
			key, msg, outcome := checkText(text, nil)
			n++
			c.Eval(1)
			c.Outcome("explicit-id:derived-nonterminal:"+outcome, 1)
			if outcome == "ok" || outcome == "error:same-id" {
				c.Nontrivial(1)
			}
			if key != "" {
				c.Violate(key+":explicit-id:derived-nonterminal", msg, rcase{Mode: "text", Text: text})
			}
		}
	}
	c.Set("explicit_id_cases", len(cases)+n)
}

// predefinedClashes declares, in every spelling class, symbols whose identifier equals the one of a
// symbol the compiler defines itself: eoi -> EOI, invalid_token -> INVALID_TOKEN and, in flex mode,
// error -> YYerror. Re-declaring eoi / invalid_token / error under their own names is legal and not
// part of this section.
func predefinedClashes(c *core.Ctx) {
	type pcase struct{ tag, text string }
	var cases []pcase
	variants := func(words ...string) []string { // spellings of a multi-word name
		up := strings.ToUpper(strings.Join(words, "_"))
		lo := strings.ToLower(up)
		var caps []string
		for _, w := range words {
			caps = append(caps, strings.ToUpper(w[:1])+strings.ToLower(w[1:]))
		}
		return []string{up, strings.Join(caps, "_"), strings.Join(caps, ""), strings.ReplaceAll(lo, "_", "-"), strings.ReplaceAll(up, "_", "-")}
	}
	spell := append(variants("eoi"), variants("invalid", "token")...)
	spell = append(spell, "e-o-i", "e_o_i", "E_O_I", "eOI", "invalidToken", "INVALIDTOKEN", "i_n_v_a_l_i_d_t_o_k_e_n")
	head := "language l(go);\n:: lexer\nzz: /z/\n"
	for _, sp := range spell {
		for _, t := range []string{sp, "'" + sp + "'", "\"" + sp + "\""} {
			cases = append(cases, pcase{"predefined:term", head + t + ": /x/\n:: parser\ninput: zz " + t + ";\n"})
		}
		cases = append(cases, pcase{"predefined:explicit-id", head + "zp (" + sp + "): /x/\n:: parser\ninput: zz zp;\n"})
		cases = append(cases, pcase{"predefined:nonterm", head + ":: parser\ninput: zz " + sp + ";\n" + sp + ": zz;\n"})
		// compiler-derived nonterminals: template instance <sp>_T and mid-rule <sp>$1
		cases = append(cases, pcase{"predefined:derived-nonterm", head + ":: parser\n%flag T;\ninput: zz " + sp + "<+T>;\n" + sp + "<T>: [T] zz | [!T] zz zz;\n"})
	}
	flex := "language l(cc);\nflexMode = true\n:: lexer\nzz:\n"
	for _, sp := range []string{"YYerror", "yyerror", "YYERROR", "yYerror", "YY-error", "yy_error", "Yyerror", "YYError", "ERROR", "Error"} {
		cases = append(cases, pcase{"predefined:flex:term", flex + sp + ":\n:: parser\ninput: zz " + sp + ";\n"})
		cases = append(cases, pcase{"predefined:flex:explicit-id", flex + "zp (" + sp + "):\n:: parser\ninput: zz zp;\n"})
		cases = append(cases, pcase{"predefined:flex:nonterm", flex + ":: parser\ninput: zz " + sp + ";\n" + sp + ": zz;\n"})
	}
	res := make([]result, len(cases))
	core.ParallelFor(len(cases), 16, func(i int) {
		var r result
		r.key, r.msg, r.outcome = checkText(cases[i].text, nil)
		res[i] = r
	})
	for i, pc := range cases {
		c.Eval(1)
		c.Outcome(pc.tag+":"+res[i].outcome, 1)
		if res[i].outcome == "ok" || res[i].outcome == "error:same-id" {
			c.Nontrivial(1)
		}
		if res[i].key != "" {
			c.Violate(res[i].key+":predefined", res[i].msg, rcase{Mode: "text", Text: pc.text})
		}
	}
}

func replay(c *core.Ctx, raw json.RawMessage) error {
	var r rcase
	if err := json.Unmarshal(raw, &r); err != nil {
		return err
	}
	switch r.Mode {
	case "produce":
		if r.Sp == nil {
			return fmt.Errorf("bad replay record")
		}
		if key, msg := checkProduce(*r.Sp); key != "" {
			return fmt.Errorf("%s: %s", key, msg)
		}
	case "compile":
		if key, msg, _ := checkCompile(r.Decls); key != "" {
			return fmt.Errorf("%s: %s", key, msg)
		}
	case "text":
		if key, msg, _ := checkText(r.Text, nil); key != "" {
			return fmt.Errorf("%s: %s", key, msg)
		}
	case "gen":
		if res := checkGenerated(r.Text); res.key != "" {
			return fmt.Errorf("%s: %s", res.key, res.what)
		}
	default:
		return fmt.Errorf("unknown mode %q", r.Mode)
	}
	return nil
}
