package main

// Section F of C28: the identifiers as they end up in generated Go code. compiler.Compile + gen.Generate
// run in-process on tiny grammars; every generated .go file must parse (go/parser) and no package may
// declare a top-level name (or a method of one receiver) twice. This is where an identifier that is
// fine by itself still breaks the target: a name used raw instead of its identifier, or an identifier
// equal to a name the templates declare themselves.

import (
	"fmt"
	"go/ast"
	"go/parser"
	"go/token"
	"path"
	"sort"
	"strings"

	"github.com/inspirer/textmapper/util/ident"

	"verif/internal/core"
	"verif/internal/genharness"
)

const genHeader = "language l(go);\npackage = \"example.com/l\"\n:: lexer\nzz: /z/\nc: /y/\n"

// genTermGrammar declares one more terminal (decl is the complete lexer line).
func genTermGrammar(declLine, name string) string {
	return genHeader + declLine + "\n:: parser\ninput: zz " + name + " c;\n"
}

// genNontermGrammar uses nonterminal n as an input, as a plain reference and in runtime lookaheads.
func genNontermGrammar(n string) string {
	return genHeader + ":: parser\n%input input, " + n + ";\ninput: (?= " + n + ") zz c c | (?= !" + n + ") zz zz c | c " + n + ";\n" + n + ": zz c;\n"
}

type genResult struct {
	key, what, outcome string
	decls              map[string][]string // package dir -> declared top-level names
	ids                map[string]bool     // symbol identifiers of the grammar
}

func checkGenerated(text string) genResult {
	g, files, genErr, genPanic := genharness.Generate("c28", text)
	if genPanic != "" {
		return genResult{key: "gen-go:panic:" + core.PanicSite(fmt.Errorf("%s", genPanic)), what: "compile/generate panics on\n" + text + "\n" + genPanic, outcome: "panic"}
	}
	if genErr != "" {
		// rejected with a diagnostic (by the compiler or by the generator): allowed
		return genResult{outcome: "rejected:" + strings.SplitN(genErr, ":", 2)[0]}
	}
	res := genResult{outcome: "ok", decls: map[string][]string{}, ids: map[string]bool{}}
	for _, s := range g.Syms {
		res.ids[s.ID] = true
	}
	names := genharness.SortedFiles(files)
	seen := map[string]string{} // dir + "\x00" + name -> file
	fset := token.NewFileSet()
	for _, name := range names {
		if !strings.HasSuffix(name, ".go") {
			continue
		}
		f, err := parser.ParseFile(fset, name, files[name], parser.SkipObjectResolution)
		if err != nil {
			msg := err.Error()
			if len(msg) > 300 {
				msg = msg[:300]
			}
			res.key = "gen-go:syntax-error:" + name
			res.what = fmt.Sprintf("generated %s does not parse: %s; no diagnostic was reported for\n%s", name, msg, text)
			return res
		}
		dir := path.Dir(name)
		declare := func(n string) {
			if n == "_" {
				return
			}
			res.decls[dir] = append(res.decls[dir], n)
			k := dir + "\x00" + n
			if prev, ok := seen[k]; ok && res.key == "" {
				res.key = "gen-go:redeclared:" + name + ":" + n
				res.what = fmt.Sprintf("generated code declares %s twice (%s and %s); no diagnostic was reported for\n%s", n, prev, name, text)
			}
			seen[k] = name
		}
		for _, d := range f.Decls {
			switch d := d.(type) {
			case *ast.FuncDecl:
				n := d.Name.Name
				if d.Recv != nil && len(d.Recv.List) == 1 {
					t := d.Recv.List[0].Type
					if s, ok := t.(*ast.StarExpr); ok {
						t = s.X
					}
					if id, ok := t.(*ast.Ident); ok {
						n = id.Name + "." + n
					}
				} else if n == "init" {
					continue
				}
				declare(n)
			case *ast.GenDecl:
				for _, sp := range d.Specs {
					switch sp := sp.(type) {
					case *ast.ValueSpec:
						for _, id := range sp.Names {
							declare(id.Name)
						}
					case *ast.TypeSpec:
						declare(sp.Name.Name)
					}
				}
			}
		}
	}
	return res
}

// generatedCode runs section F.
func generatedCode(c *core.Ctx, terms, nonterms []string) {
	type gcase struct{ tag, text string }
	var cases []gcase
	for _, t := range terms {
		cases = append(cases, gcase{"gen:term", genTermGrammar(t+": /x/", t)})
	}
	for _, n := range nonterms {
		cases = append(cases, gcase{"gen:nonterm", genNontermGrammar(n)})
	}
	// Names the templates declare on their own (everything a symbol-free baseline declares that is not
	// a symbol identifier), probed with every symbol spelling whose identifier equals such a name.
	base := checkGenerated(genTermGrammar("zp: /x/", "zp"))
	if base.key != "" || base.outcome != "ok" {
		c.Violate("harness:gen-baseline", "baseline grammar does not generate cleanly: "+base.outcome+" "+base.what, rcase{Mode: "gen", Text: genTermGrammar("zp: /x/", "zp")})
		return
	}
	reserved := map[string]bool{}
	for _, names := range base.decls {
		for _, n := range names {
			if !base.ids[n] && !strings.Contains(n, ".") {
				reserved[n] = true
			}
		}
	}
	var rs []string
	for r := range reserved {
		rs = append(rs, r)
	}
	sort.Strings(rs)
	c.Set("template_declared_names", len(rs))
	probes := 0
	for _, r := range rs {
		lower := strings.ToLower(r)
		lowerFirst := strings.ToLower(r[:1]) + r[1:]
		if admittedID(r) && r == strings.ToUpper(r) {
			cases = append(cases, gcase{"gen:reserved:explicit-id", genTermGrammar("zp ("+r+"): /x/", "zp")})
			probes++
		}
		for _, cand := range []string{r, lower, lowerFirst} {
			if !admittedID(cand) {
				continue
			}
			if ident.Produce(cand, ident.UpperCase) == r {
				cases = append(cases, gcase{"gen:reserved:term", genTermGrammar(cand+": /x/", cand)})
				probes++
			}
			if ident.Produce(cand, ident.CamelCase) == r {
				cases = append(cases, gcase{"gen:reserved:nonterm", genNontermGrammar(cand)})
				probes++
			}
		}
	}
	c.Set("template_declared_name_probes", probes)
	res := make([]genResult, len(cases))
	core.ParallelFor(len(cases), 16, func(i int) { res[i] = checkGenerated(cases[i].text) })
	for i, gc := range cases {
		c.Eval(1)
		c.Outcome(gc.tag+":"+res[i].outcome, 1)
		if res[i].outcome == "ok" {
			c.Nontrivial(1)
		}
		if res[i].key != "" {
			c.Violate(res[i].key, res[i].what, rcase{Mode: "gen", Text: gc.text})
		}
	}
	c.Sample(map[string]string{"generated-code grammar": genNontermGrammar("a-1")})
}
