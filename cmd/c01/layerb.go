package main

import (
	"fmt"
	"strings"

	"verif/internal/cfgoracle"
	"verif/internal/core"
	"verif/internal/genharness"
	"verif/internal/gramenum"
	"verif/internal/tabinterp"
)

// Layer B: the same question asked of the real generated Go code. Grammars of the nano scope
// are printed as .tm text (every rule annotated "-> R<i>" so that every reduction is observable
// through the listener), generated with compiler.Compile + gen.Generate, built with `go build`
// and run on every string of length <= LB. Three things are compared for every (grammar, input
// nonterminal, string): the generated parser's verdict / error offset with the CFG oracle; the
// generated parser's reduction sequence with the interpreter (internal/tabinterp) run on the very
// tables the generator used — this is the conformance check that binds the Layer-A model to the
// template.
const LB = 4

var tmOptSets = [][]string{
	nil,
	{"optimizeTables = true"},
	{"optimizeTables = true", "defaultReduce = true"},
	{"minimizeDFA = true"},
	{"minimizeDFA = true", "optimizeTables = true"},
	{"minimizeDFA = true", "optimizeTables = true", "defaultReduce = true"},
}

type bCase struct {
	TM     string `json:"tm"`
	Entry  string `json:"entry"`
	Text   string `json:"text"`
	Inputs string `json:"inputs"`
}

func layerB(c *core.Ctx, maxGrammars int) {
	scope := gramenum.Scope{N: 2, T: 2, R: 3, K: 2, Reduced: true}
	if !c.Quick() {
		scope = gramenum.Scope{N: 2, T: 2, R: 4, K: 2, Reduced: true}
	}
	type item struct {
		g      *gramenum.Gram
		inputs []gramenum.Input
		opt    int
	}
	var items []item
	k := 0
	// Input configurations with the same nonterminal listed twice (X1, X1 no-eoi) are left to
	// Layer A: the Go templates emit one Parse<Nonterminal> method per input, so such a grammar
	// cannot be expressed as one generated package (tracked under C17).
	distinct := func(g *gramenum.Gram) [][]gramenum.Input {
		var out [][]gramenum.Input
		for _, cfg := range gramenum.InputConfigs(g) {
			seen := map[int]bool{}
			ok := true
			for _, in := range cfg {
				if seen[in.NT] {
					ok = false
				}
				seen[in.NT] = true
			}
			if ok {
				out = append(out, cfg)
			}
		}
		return out
	}
	gramenum.Enumerate(gramenum.Scope{N: 1, T: 2, R: 4, K: 2, Reduced: true}, func(idx int, g *gramenum.Gram) bool {
		cfgs := distinct(g)
		items = append(items, item{g.Clone(), cfgs[k%len(cfgs)], k % len(tmOptSets)})
		k++
		return true
	})
	gramenum.Enumerate(scope, func(idx int, g *gramenum.Gram) bool {
		cfgs := distinct(g)
		items = append(items, item{g.Clone(), cfgs[k%len(cfgs)], k % len(tmOptSets)})
		k++
		return true
	})
	// keep conflict-free ones only (cheap pre-filter with lalr.Compile), then cut to budget
	var keep []item
	for _, it := range items {
		if conflictFree(it.g, it.inputs) {
			keep = append(keep, it)
		}
	}
	c.Set("layerB_candidates", len(keep))
	if len(keep) > maxGrammars {
		// deterministic stride so that all sizes / option sets stay represented
		var sel []item
		for i := 0; i < maxGrammars; i++ {
			sel = append(sel, keep[i*len(keep)/maxGrammars])
		}
		keep = sel
		c.Capped(fmt.Sprintf("Layer B: %d of the conflict-free candidates generated and built (stride sample of the enumeration; Layer A covers all)", maxGrammars))
	}
	const batch = 120
	var validated int64
	for start := 0; start < len(keep); start += batch {
		if c.Expired() {
			c.Capped(fmt.Sprintf("Layer B stopped after %d grammars (budget)", start))
			break
		}
		end := min(start+batch, len(keep))
		var specs []genharness.Spec
		for i := start; i < end; i++ {
			it := keep[i]
			name := fmt.Sprintf("g%04d", i)
			tm := it.g.ToTM(it.inputs, gramenum.TMOpts{Name: name, Events: true, Options: tmOptSets[it.opt]})
			var cases []genharness.Case
			for _, in := range it.inputs {
				gramenum.AllStrings(it.g.T, LB, func(w string) {
					cases = append(cases, genharness.Case{Entry: entryName(it.g, it.inputs, in), Text: w, Mode: "parse"})
				})
			}
			specs = append(specs, genharness.Spec{Name: name, TM: tm, Cases: cases})
		}
		outs, err := genharness.RunBatch(specs, genharness.BatchOpts{})
		if err != nil {
			c.Violate("layerB:harness", err.Error(), nil)
			return
		}
		for bi, out := range outs {
			it := keep[start+bi]
			sp := specs[bi]
			if out.GenPanic != "" {
				c.Violate("layerB:generate-panic", out.GenPanic, bCase{TM: sp.TM})
				continue
			}
			if out.GenErr != "" {
				// the lalr-level pre-filter said conflict-free; the front end may still reject
				// (e.g. unused symbols); not in the property's domain
				c.Add("layerB_rejected_by_frontend", 1)
				continue
			}
			if out.BuildErr != "" {
				c.Violate("layerB:generated-code-does-not-build", out.BuildErr, bCase{TM: sp.TM})
				continue
			}
			c.Add("layerB_grammars_built", 1)
			o := cfgoracle.New(it.g, LB)
			pg := out.Grammar
			m := &tabinterp.Machine{T: pg.Parser.Tables, Terms: pg.Parser.NumTerminals, Optimized: pg.Parser.Tables.Optimized != nil}
			// terminal numbering of the compiled grammar
			termOf := map[byte]int{}
			for i, s := range pg.Syms[:pg.NumTokens] {
				if len(s.Name) == 2 && s.Name[0] == 't' {
					termOf[s.Name[1]] = i
				}
			}
			ci := 0
			for ii, in := range it.inputs {
				// index of this input among the compiled grammar's inputs
				gramenum.AllStrings(it.g.T, LB, func(w string) {
					res := out.Results[ci]
					cs := sp.Cases[ci]
					ci++
					c.Eval(1)
					rc := bCase{TM: sp.TM, Entry: cs.Entry, Text: w, Inputs: fmt.Sprint(it.inputs)}
					if res.Panic != "" || res.Hang || res.Aborted {
						c.Violate("layerB:parser-crash-or-hang", fmt.Sprintf("panic=%q hang=%v aborted=%v on %q", res.Panic, res.Hang, res.Aborted, w), rc)
						return
					}
					exp := o.Verdict(in.NT, in.Eoi, w)
					if res.Accept != exp.Accept {
						c.Violate("layerB:verdict", fmt.Sprintf("generated parser accept=%v, oracle accept=%v for %q (entry %s)", res.Accept, exp.Accept, w, cs.Entry), rc)
						return
					}
					if !res.Accept && res.ErrOff != exp.ErrTok {
						c.Violate("layerB:error-position", fmt.Sprintf("generated parser reports the error at offset %d, first non-viable token is %d for %q", res.ErrOff, exp.ErrTok, w), rc)
						return
					}
					// conformance of the interpreter with the generated code
					toks := make([]int, len(w))
					for i := range w {
						toks[i] = termOf[w[i]]
					}
					tr := m.Run(ii, toks)
					var want []string
					for _, st := range tr {
						if st.Kind == tabinterp.Reduce {
							r := pg.Parser.Rules[st.Arg]
							if r.Type >= 0 {
								want = append(want, pg.Parser.Types.RangeTypes[r.Type].Name)
							}
						}
					}
					var got []string
					for _, e := range res.Events {
						got = append(got, e.Type)
					}
					last := tr.Last()
					if strings.Join(got, " ") != strings.Join(want, " ") || (last.Kind == tabinterp.Accept) != res.Accept || (last.Kind == tabinterp.Error && last.Arg != res.ErrOff) {
						c.Violate("model-divergence:interpreter-vs-generated-parser", fmt.Sprintf("on %q: generated events %v accept=%v erroff=%d; interpreter trace %s (events %v)", w, got, res.Accept, res.ErrOff, tr, want), rc)
						return
					}
					validated++
				})
			}
		}
	}
	c.Traces(validated)
}

func entryName(g *gramenum.Gram, inputs []gramenum.Input, in gramenum.Input) string {
	return g.SymName(in.NT)
}
