// C01: generated parsers accept exactly the grammar's language.
// Layer A: every conflict-free grammar of the scope x input configuration x table options is
// compiled with the real lalr.Compile and every token string up to length L is run through the
// table interpreter (internal/tabinterp, a transcription of the parser template's loop, bound
// to the template by Layer B) and compared with the CFG oracle (internal/cfgoracle).
package main

import (
	"encoding/json"
	"fmt"
	"sync/atomic"

	"github.com/inspirer/textmapper/lalr"

	"verif/internal/cfgoracle"
	"verif/internal/core"
	"verif/internal/gramenum"
	"verif/internal/tabinterp"
)

type caseT struct {
	Grammar string           `json:"grammar"`
	G       *gramenum.Gram   `json:"g"`
	Inputs  []gramenum.Input `json:"inputs"`
	Opts    lalr.Options     `json:"opts"`
	Input   int              `json:"input"`
	W       string           `json:"w"`
}

func main() { core.Main("C01", "model_checking", run, replay, nil) }

var optSets = []lalr.Options{
	{},
	{Optimize: true},
	{Optimize: true, DefaultReduce: true},
	{MinimizeDFA: true},
	{MinimizeDFA: true, Optimize: true},
	{MinimizeDFA: true, Optimize: true, DefaultReduce: true},
}

type stats struct{ states, transitions, evals, nontrivial, conflictFree, sharedLast int64 }

func tokensOf(w string) []int {
	out := make([]int, len(w))
	for i := range w {
		out[i] = int(w[i]-'a') + 1
	}
	return out
}

// checkOne runs input #in of tables on w and compares with the oracle. Returns key,msg.
func checkOne(o *cfgoracle.Oracle, m *tabinterp.Machine, inputs []gramenum.Input, in int, w string) (string, string, tabinterp.Trace) {
	tr := m.Run(in, tokensOf(w))
	exp := o.Verdict(inputs[in].NT, inputs[in].Eoi, w)
	last := tr.Last()
	switch last.Kind {
	case tabinterp.Loop:
		return "nontermination", fmt.Sprintf("parser never stops on %q: %s", w, tr), tr
	case tabinterp.Broken:
		return "tables:broken", fmt.Sprintf("table access out of range on %q: %s", w, tr), tr
	case tabinterp.Accept:
		if !exp.Accept {
			return "accepts-non-sentence", fmt.Sprintf("accepts %q which is not a sentence (trace %s)", w, tr), tr
		}
		if !inputs[in].Eoi && last.Arg != exp.ConsumedTok {
			return "noeoi:consumed", fmt.Sprintf("no-eoi parse of %q consumed %d tokens, the sentence prefix has %d", w, last.Arg, exp.ConsumedTok), tr
		}
	case tabinterp.Error:
		if exp.Accept {
			return "rejects-sentence", fmt.Sprintf("rejects sentence %q at token %d (trace %s)", w, last.Arg, tr), tr
		}
		if last.Arg != exp.ErrTok {
			return "error-position", fmt.Sprintf("error for %q reported at token %d, first non-viable token is %d (trace %s)", w, last.Arg, exp.ErrTok, tr), tr
		}
	}
	return "", "", tr
}

func scopes(c *core.Ctx) []gramenum.Scope {
	if c.Quick() {
		return []gramenum.Scope{
			{N: 1, T: 2, R: 4, K: 2, Reduced: true},
			{N: 2, T: 2, R: 4, K: 2, Reduced: true},
			{N: 1, T: 2, R: 3, K: 3, Reduced: true},
		}
	}
	return []gramenum.Scope{
		{N: 1, T: 2, R: 4, K: 2, Reduced: true},
		{N: 2, T: 2, R: 4, K: 2, Reduced: true},
		{N: 1, T: 2, R: 4, K: 3, Reduced: true},
		{N: 2, T: 2, R: 3, K: 3, Reduced: true},
		{N: 3, T: 2, R: 4, K: 2, Reduced: true},
		{N: 2, T: 3, R: 4, K: 2, Reduced: true},
		{N: 2, T: 2, R: 5, K: 2, Reduced: true},
		{N: 3, T: 2, R: 5, K: 2, Reduced: true},
	}
}

func run(c *core.Ctx) {
	L := 5
	c.Rule("Layer A: every reduced rule set of the scope (terminal symmetry broken) x input configurations x 6 table-option subsets that lalr.Compile accepts without conflicts x every token string of length<=L over the terminals x every input; non-trivial = grammar x config with >=2 sentences <=L and >=1 rejected string; states = distinct (grammar,config,options,parser stack) configurations visited, transitions = parser steps")
	c.Set("L", L)
	var st stats
	if !c.Quick() {
		// thorough: the generated-code layer first, with 40% of the budget, so that a large Layer-A
		// scope cannot starve it
		full := c.Deadline
		c.Deadline = c.Start.Add(full.Sub(c.Start) * 2 / 5)
		layerB(c, 6000)
		c.Deadline = full
	}
	for _, sc := range scopes(c) {
		if c.Expired() {
			c.Capped(fmt.Sprintf("scope %+v not started (budget)", sc))
			continue
		}
		const block = 1024
		var batch []*gramenum.Gram
		stopped := false
		flush := func() {
			gs := batch
			batch = nil
			core.ParallelFor(len(gs), 16, func(i int) { layerA(c, gs[i], sc.T, L, &st) })
		}
		n := gramenum.Enumerate(sc, func(idx int, g *gramenum.Gram) bool {
			batch = append(batch, g.Clone())
			if len(batch) >= block {
				flush()
				if c.Expired() {
					stopped = true
					return false
				}
			}
			return true
		})
		flush()
		if stopped {
			c.Capped(fmt.Sprintf("scope %+v stopped after %d grammars (budget)", sc, n))
		}
		c.Add("grammars", int64(n))
	}
	if c.Quick() {
		layerB(c, 240)
	}
	c.States(st.states)
	c.Transitions(st.transitions)
	c.Set("conflict_free_grammar_configs", st.conflictFree)
}

func conflictFree(g *gramenum.Gram, inputs []gramenum.Input) bool {
	var tbl *lalr.Tables
	var cerr error
	if err := core.Guard(func() { tbl, cerr = lalr.Compile(g.ToLalr(inputs), lalr.Options{}) }); err != nil {
		return false
	}
	return cerr == nil && tbl.SR == 0 && tbl.RR == 0
}

func layerA(c *core.Ctx, g *gramenum.Gram, T, L int, st *stats) {
	o := cfgoracle.New(g, L)
	for _, inputs := range gramenum.InputConfigs(g) {
		counted := false
		for oi, opts := range optSets {
			lg := g.ToLalr(inputs)
			var tbl *lalr.Tables
			var cerr error
			if err := core.Guard(func() { tbl, cerr = lalr.Compile(lg, opts) }); err != nil {
				c.Violate("panic:"+core.PanicSite(err), err.Error()+" :: "+g.String(), caseT{g.String(), g, inputs, opts, 0, ""})
				continue
			}
			if cerr != nil || tbl.SR != 0 || tbl.RR != 0 {
				c.Outcome("conflicting", 1)
				break // not in the property's domain (same verdict for every option set)
			}
			if oi == 0 {
				atomic.AddInt64(&st.conflictFree, 1)
			}
			m := &tabinterp.Machine{T: tbl, Terms: g.T + 1, Optimized: opts.Optimize}
			configs := map[string]bool{}
			var trans, acc, rej int64
			for in := range inputs {
				gramenum.AllStrings(T, L, func(w string) {
					key, msg, tr := checkOne(o, m, inputs, in, w)
					trans += int64(len(tr))
					if key != "" {
						if opts.Optimize || opts.MinimizeDFA {
							key += fmt.Sprintf(":opt=%v,defred=%v,min=%v", opts.Optimize, opts.DefaultReduce, opts.MinimizeDFA)
						}
						c.Violate(key, msg+" :: "+g.String()+fmt.Sprintf(" inputs=%v input#%d opts=%+v", inputs, in, opts), caseT{g.String(), g, inputs, opts, in, w})
					}
					if tr.Last().Kind == tabinterp.Accept {
						acc++
					} else {
						rej++
					}
					configs[fmt.Sprint(in, tr)] = true
				})
			}
			c.Eval(acc + rej)
			c.Outcome("accept", acc)
			c.Outcome("reject", rej)
			atomic.AddInt64(&st.transitions, trans)
			atomic.AddInt64(&st.states, int64(len(configs)))
			if !counted && acc >= 2 && rej >= 1 {
				counted = true
				c.Nontrivial(1)
				if c.SampleCount() < 4 {
					c.Sample(map[string]any{"grammar": g.String(), "inputs": fmt.Sprint(inputs), "sentences": o.Lang(inputs[0].NT)})
				}
			}
		}
	}
}

func replay(c *core.Ctx, raw json.RawMessage) error {
	var k caseT
	if err := json.Unmarshal(raw, &k); err != nil {
		return err
	}
	lg := k.G.ToLalr(k.Inputs)
	tbl, err := lalr.Compile(lg, k.Opts)
	if err != nil {
		return nil // not conflict-free any more: outside the property's domain
	}
	o := cfgoracle.New(k.G, max(5, len(k.W)))
	m := &tabinterp.Machine{T: tbl, Terms: k.G.T + 1, Optimized: k.Opts.Optimize}
	if key, msg, _ := checkOne(o, m, k.Inputs, k.Input, k.W); key != "" {
		return fmt.Errorf("%s: %s", key, msg)
	}
	return nil
}
