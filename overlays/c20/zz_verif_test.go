// Driver for /verif property C20 (b). This file is ADDED to package
// github.com/inspirer/textmapper/parsers/tm/ast through `go test -overlay` (it never replaces a
// file of the repository); it is deliberately dumb: it feeds recorded event streams to the
// unexported builder and dumps what the builder produced. All judging happens in /verif/cmd/c20.
//
// Input  ($VERIF_C20_DIR/in-*.txt):  first line "#len=<L>", then one stream per line:
//
//	"o-e,o-e,..." (events in report order; event i gets node type 1000+i)
//
// Output ($VERIF_C20_DIR/out-*.txt): one line per stream:
//
//	"S o-e-t ...|T t,o,e,depth,parentType,nextType,firstChildType;..."
//
// S = builder stack before build(); T = the tree after build() in pre-order through the public
// accessors (Root, Children, Child, Next, Type, Offset, Endoffset) plus the parent pointer.
// A panic is reported as "PANIC <msg>", a build error as "ERR <msg>".
package ast

import (
	"bufio"
	"fmt"
	"os"
	"path/filepath"
	"runtime"
	"sort"
	"strconv"
	"strings"
	"sync"
	"testing"

	"github.com/inspirer/textmapper/parsers/tm"
	"github.com/inspirer/textmapper/parsers/tm/selector"
)

func verifDump(sb *strings.Builder, n *Node, depth int) {
	typ := func(x *Node) int {
		if x == nil {
			return -1
		}
		return int(x.Type())
	}
	fmt.Fprintf(sb, "%d,%d,%d,%d,%d,%d,%d;", int(n.Type()), n.Offset(), n.Endoffset(), depth,
		typ(n.parent), typ(n.Next(selector.Any)), typ(n.Child(selector.Any)))
	for _, c := range n.Children(selector.Any) {
		verifDump(sb, c, depth+1)
	}
}

func verifStream(line string, content string) (out string) {
	defer func() {
		if r := recover(); r != nil {
			out = "PANIC " + strings.ReplaceAll(fmt.Sprint(r), "\n", " ")
		}
	}()
	b := newBuilder("verif", content)
	if line != "" {
		for i, ev := range strings.Split(line, ",") {
			o, e, _ := strings.Cut(ev, "-")
			off, _ := strconv.Atoi(o)
			end, _ := strconv.Atoi(e)
			b.addNode(tm.NodeType(1000+i), off, end)
		}
	}
	var sb strings.Builder
	sb.WriteString("S")
	for _, n := range b.stack {
		fmt.Fprintf(&sb, " %d-%d-%d", n.offset, n.endoffset, int(n.t))
	}
	tree, err := b.build()
	if err != nil {
		return "ERR " + strings.ReplaceAll(err.Error(), "\n", " ")
	}
	sb.WriteString("|T ")
	verifDump(&sb, tree.Root(), 0)
	return sb.String()
}

func verifFile(in string) (int, error) {
	f, err := os.Open(in)
	if err != nil {
		return 0, err
	}
	defer f.Close()
	outPath := filepath.Join(filepath.Dir(in), "out-"+strings.TrimPrefix(filepath.Base(in), "in-"))
	of, err := os.Create(outPath + ".tmp")
	if err != nil {
		return 0, err
	}
	w := bufio.NewWriterSize(of, 1<<20)
	sc := bufio.NewScanner(f)
	sc.Buffer(make([]byte, 1<<16), 1<<20)
	content := ""
	n := 0
	for sc.Scan() {
		line := sc.Text()
		if strings.HasPrefix(line, "#len=") {
			l, _ := strconv.Atoi(strings.TrimPrefix(line, "#len="))
			content = strings.Repeat("x", l)
			continue
		}
		w.WriteString(verifStream(line, content))
		w.WriteByte('\n')
		n++
	}
	if err := sc.Err(); err != nil {
		return n, err
	}
	if err := w.Flush(); err != nil {
		return n, err
	}
	if err := of.Close(); err != nil {
		return n, err
	}
	return n, os.Rename(outPath+".tmp", outPath)
}

func TestVerifC20Driver(t *testing.T) {
	dir := os.Getenv("VERIF_C20_DIR")
	if dir == "" {
		t.Skip("VERIF_C20_DIR is not set")
	}
	files, _ := filepath.Glob(filepath.Join(dir, "in-*.txt"))
	sort.Strings(files)
	var wg sync.WaitGroup
	var mu sync.Mutex
	total := 0
	ch := make(chan string)
	for w := 0; w < runtime.GOMAXPROCS(0); w++ {
		wg.Add(1)
		go func() {
			defer wg.Done()
			for f := range ch {
				n, err := verifFile(f)
				mu.Lock()
				total += n
				if err != nil {
					t.Errorf("%s: %v", f, err)
				}
				mu.Unlock()
			}
		}()
	}
	for _, f := range files {
		ch <- f
	}
	close(ch)
	wg.Wait()
	fmt.Printf("VERIF-C20 {\"files\":%d,\"streams\":%d,\"file_type\":%d}\n", len(files), total, int(tm.File))
}
