// Package genharness drives the real compiler.Compile + gen.Generate on .tm
// texts, writes the generated Go packages into one scratch module outside
// /repo and /verif, builds one driver binary with `go build` and runs inputs
// through the real generated Lexer/Parser ("Layer B" of DESIGN.md).
package genharness

import (
	"bufio"
	"bytes"
	"context"
	"encoding/json"
	"fmt"
	"os"
	"os/exec"
	"path/filepath"
	"regexp"
	"sort"
	"strings"
	"time"

	"github.com/inspirer/textmapper/compiler"
	"github.com/inspirer/textmapper/gen"
	"github.com/inspirer/textmapper/grammar"

	"verif/internal/core"
)

// Case is one input for one generated grammar.
type Case struct {
	Entry string `json:"entry"` // input nonterminal name ("" = the only/first input)
	Text  string `json:"text"`
	Mode  string `json:"mode,omitempty"` // driver-specific
}

// Spec is one grammar of a batch.
type Spec struct {
	Name   string // unique Go identifier, e.g. g0007; the grammar must say package = "scratch/<Name>"
	TM     string
	Driver func(g *grammar.Grammar, name string) string // nil = StdDriver
	Cases  []Case
	NoBuild bool // generate only (C30 etc.)
}

// Token is one lexer token.
type Token struct {
	Sym  int `json:"s"`
	Off  int `json:"o"`
	End  int `json:"e"`
	Line int `json:"l,omitempty"`
	Col  int `json:"c,omitempty"`
}

// Event is one listener call.
type Event struct {
	Type  string `json:"t"`
	Flags int    `json:"f,omitempty"`
	Off   int    `json:"o"`
	End   int    `json:"e"`
}

// Result is what a driver reports for one case.
type Result struct {
	Tokens   []Token  `json:"tokens,omitempty"`
	LexLoop  bool     `json:"lexloop,omitempty"` // Next() budget exhausted
	Accept   bool     `json:"accept"`
	ErrOff   int      `json:"erroff"`
	ErrEnd   int      `json:"errend"`
	ErrLine  int      `json:"errline,omitempty"`
	ErrMsg   string   `json:"errmsg,omitempty"`
	Events   []Event  `json:"events,omitempty"`
	Handler  [][2]int `json:"handler,omitempty"` // error-handler calls (offset, endoffset)
	Steps    int      `json:"steps,omitempty"`
	Aborted  bool     `json:"aborted,omitempty"` // event budget exhausted (non-termination)
	Panic    string   `json:"panic,omitempty"`
	Hang     bool     `json:"hang,omitempty"`
	Values   []string `json:"values,omitempty"` // recorded by semantic actions
	Extra    map[string]any `json:"extra,omitempty"`
}

// Outcome is the result for one Spec.
type Outcome struct {
	Name      string
	GenErr    string            // compiler.Compile or gen.Generate error ("" = ok)
	GenPanic  string            // panic during compile/generate
	Files     map[string]string // generated files (relative name -> content)
	BuildErr  string            // go build / go vet output attributed to this package
	Results   []Result          // one per Case (nil if not built)
	Grammar   *grammar.Grammar
}

// Generate compiles and generates one grammar in-process. Callers that enumerate inputs which
// may reach log.Fatal must run inside a worker subprocess (core.RunShards).
func Generate(name, tm string) (g *grammar.Grammar, files map[string]string, genErr, genPanic string) {
	files = map[string]string{}
	err := core.Guard(func() {
		var cerr error
		g, cerr = compiler.Compile(context.Background(), name+".tm", tm, compiler.Params{})
		if cerr != nil {
			genErr = "compile: " + cerr.Error()
			return
		}
		if g.TargetLang == "" {
			genErr = "compile: no target language"
			return
		}
		if gerr := gen.Generate(g, mapWriter(files), gen.Options{}); gerr != nil {
			genErr = "generate: " + gerr.Error()
		}
	})
	if err != nil {
		genPanic = err.Error()
	}
	return
}

type mapWriter map[string]string

func (m mapWriter) Write(name, content string) error { m[name] = content; return nil }

// BatchOpts tunes RunBatch.
type BatchOpts struct {
	Vet      bool          // also run go vet on packages (C17)
	CaseTimeout time.Duration // per-case watchdog in the driver binary (default 20s)
	KeepDir  bool
}

var pkgRe = regexp.MustCompile(`scratch/(g[0-9A-Za-z_]+)`)

func goEnv() []string {
	env := os.Environ()
	env = append(env, "GOFLAGS=-mod=mod", "GOPROXY=off", "GOTOOLCHAIN=local", "GOSUMDB=off", "GOWORK=off")
	return env
}

// RunBatch generates, builds and runs all specs. The scratch module lives under os.TempDir()
// and is removed before returning.
func RunBatch(specs []Spec, opts BatchOpts) ([]Outcome, error) {
	dir, err := os.MkdirTemp("", "verif-gen-")
	if err != nil {
		return nil, err
	}
	if !opts.KeepDir {
		defer os.RemoveAll(dir)
	}
	if opts.CaseTimeout == 0 {
		opts.CaseTimeout = 20 * time.Second
	}
	outs := make([]Outcome, len(specs))
	must := func(err error) {
		if err != nil {
			panic(err)
		}
	}
	must(os.WriteFile(filepath.Join(dir, "go.mod"), []byte("module scratch\n\ngo 1.25\n"), 0o644))
	must(os.MkdirAll(filepath.Join(dir, "rt"), 0o755))
	must(os.WriteFile(filepath.Join(dir, "rt", "rt.go"), []byte(rtSource), 0o644))
	var buildable []int
	for i, sp := range specs {
		outs[i].Name = sp.Name
		g, files, genErr, genPanic := Generate(sp.Name, sp.TM)
		outs[i].GenErr, outs[i].GenPanic, outs[i].Files, outs[i].Grammar = genErr, genPanic, files, g
		if genErr != "" || genPanic != "" || sp.NoBuild {
			continue
		}
		for name, content := range files {
			p := filepath.Join(dir, sp.Name, name)
			must(os.MkdirAll(filepath.Dir(p), 0o755))
			must(os.WriteFile(p, []byte(content), 0o644))
		}
		drv := sp.Driver
		if drv == nil {
			drv = StdDriver
		}
		if src := drv(g, sp.Name); src != "" {
			must(os.WriteFile(filepath.Join(dir, sp.Name, "zz_driver.go"), []byte(src), 0o644))
		}
		buildable = append(buildable, i)
	}
	if len(buildable) == 0 {
		return outs, nil
	}
	// build, dropping packages that fail, until the rest builds
	alive := map[int]bool{}
	for _, i := range buildable {
		alive[i] = true
	}
	byName := map[string]int{}
	for i, sp := range specs {
		byName[sp.Name] = i
	}
	bin := filepath.Join(dir, "drv")
	for round := 0; ; round++ {
		var list []int
		for _, i := range buildable {
			if alive[i] {
				list = append(list, i)
			}
		}
		if len(list) == 0 {
			return outs, nil
		}
		var mainSrc strings.Builder
		mainSrc.WriteString("package main\n\nimport (\n\t\"scratch/rt\"\n")
		for _, i := range list {
			fmt.Fprintf(&mainSrc, "\t%s \"scratch/%s\"\n", specs[i].Name, specs[i].Name)
		}
		mainSrc.WriteString(")\n\nfunc main() {\n\trt.Main(map[string]func(entry, mode, text string) rt.Result{\n")
		for _, i := range list {
			fmt.Fprintf(&mainSrc, "\t\t%q: %s.VerifRun,\n", specs[i].Name, specs[i].Name)
		}
		mainSrc.WriteString("\t})\n}\n")
		must(os.MkdirAll(filepath.Join(dir, "cmd"), 0o755))
		must(os.WriteFile(filepath.Join(dir, "cmd", "main.go"), []byte(mainSrc.String()), 0o644))
		// compile every package of the scratch module (generated sub-packages such as ast/ and
		// selector/ are not imported by the root package), then link the driver
		cmd := exec.Command("go", "build", "./...")
		cmd.Dir = dir
		cmd.Env = goEnv()
		out, err := cmd.CombinedOutput()
		if err == nil {
			cmd = exec.Command("go", "build", "-o", bin, "./cmd")
			cmd.Dir = dir
			cmd.Env = goEnv()
			out, err = cmd.CombinedOutput()
		}
		if err == nil {
			break
		}
		// attribute errors to packages
		failed := map[int][]string{}
		for _, line := range strings.Split(string(out), "\n") {
			m := pkgRe.FindStringSubmatch(line)
			if m == nil {
				// file paths look like g0001/parser.go:12:3
				if j := strings.Index(line, "/"); j > 0 {
					if idx, ok := byName[strings.TrimPrefix(line[:j], "./")]; ok && alive[idx] {
						failed[idx] = append(failed[idx], line)
					}
				}
				continue
			}
			if idx, ok := byName[m[1]]; ok && alive[idx] {
				failed[idx] = append(failed[idx], line)
			}
		}
		if len(failed) == 0 || round > len(buildable)+2 {
			return outs, fmt.Errorf("go build failed and could not be attributed: %s", trim(string(out), 2000))
		}
		for idx, lines := range failed {
			outs[idx].BuildErr = trim(strings.Join(lines, "\n"), 1500)
			alive[idx] = false
			os.RemoveAll(filepath.Join(dir, specs[idx].Name))
		}
	}
	if opts.Vet {
		var pk []string
		for _, i := range buildable {
			if alive[i] {
				pk = append(pk, "./"+specs[i].Name+"/...")
			}
		}
		cmd := exec.Command("go", append([]string{"vet"}, pk...)...)
		cmd.Dir = dir
		cmd.Env = goEnv()
		out, err := cmd.CombinedOutput()
		if err != nil {
			for _, line := range strings.Split(string(out), "\n") {
				if strings.HasPrefix(line, "#") {
					continue
				}
				line = strings.TrimPrefix(line, "vet: ")
				if j := strings.Index(line, "/"); j > 0 {
					if idx, ok := byName[strings.TrimPrefix(line[:j], "./")]; ok {
						if !strings.Contains(line, "zz_driver.go") {
							outs[idx].BuildErr += "vet: " + line + "\n"
						}
					}
				}
			}
		}
	}
	// run
	var stdin bytes.Buffer
	type ref struct{ spec, cs int }
	var order []ref
	for _, i := range buildable {
		if !alive[i] {
			continue
		}
		outs[i].Results = make([]Result, len(specs[i].Cases))
		for j, cs := range specs[i].Cases {
			rec, _ := json.Marshal(map[string]string{"g": specs[i].Name, "entry": cs.Entry, "mode": cs.Mode, "text": cs.Text})
			stdin.Write(rec)
			stdin.WriteByte('\n')
			order = append(order, ref{i, j})
		}
	}
	if len(order) == 0 {
		return outs, nil
	}
	cmd := exec.Command(bin)
	cmd.Dir = dir
	cmd.Stdin = &stdin
	cmd.Env = append(os.Environ(), fmt.Sprintf("VERIF_CASE_TIMEOUT_MS=%d", opts.CaseTimeout.Milliseconds()))
	var stderr bytes.Buffer
	cmd.Stderr = &stderr
	stdout, _ := cmd.StdoutPipe()
	if err := cmd.Start(); err != nil {
		return outs, err
	}
	sc := bufio.NewReaderSize(stdout, 1<<20)
	n := 0
	for {
		line, err := sc.ReadBytes('\n')
		if len(bytes.TrimSpace(line)) > 0 && n < len(order) {
			var r Result
			if jerr := json.Unmarshal(line, &r); jerr != nil {
				r.Panic = "bad driver output: " + trim(string(line), 200)
			}
			outs[order[n].spec].Results[order[n].cs] = r
			n++
		}
		if err != nil {
			break
		}
	}
	werr := cmd.Wait()
	if n < len(order) {
		// the driver died: attribute to the first unanswered case
		r := &outs[order[n].spec].Results[order[n].cs]
		r.Panic = fmt.Sprintf("driver process died (%v): %s", werr, trim(stderr.String(), 1500))
		for k := n + 1; k < len(order); k++ {
			outs[order[k].spec].Results[order[k].cs].Extra = map[string]any{"skipped": "driver died earlier"}
		}
	}
	return outs, nil
}

func trim(s string, n int) string {
	if len(s) > n {
		return s[:n] + "…"
	}
	return s
}

// InputNames returns the non-synthetic input nonterminal names of g in order.
func InputNames(g *grammar.Grammar) []string {
	var out []string
	for _, in := range g.Parser.Inputs {
		if in.Synthetic {
			continue
		}
		out = append(out, g.Parser.Nonterms[in.Nonterm].Name)
	}
	return out
}

// SortedFiles lists generated file names.
func SortedFiles(m map[string]string) []string {
	var out []string
	for k := range m {
		out = append(out, k)
	}
	sort.Strings(out)
	return out
}
