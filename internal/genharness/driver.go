package genharness

import (
	"fmt"
	"strings"

	"github.com/inspirer/textmapper/grammar"
)

// rtSource is the runtime of the scratch module (package scratch/rt).
const rtSource = `// Package rt is the runtime shared by generated drivers.
package rt

import (
	"bufio"
	"encoding/json"
	"fmt"
	"os"
	"runtime/debug"
	"strconv"
	"time"
)

type Token struct {
	Sym  int ` + "`json:\"s\"`" + `
	Off  int ` + "`json:\"o\"`" + `
	End  int ` + "`json:\"e\"`" + `
	Line int ` + "`json:\"l,omitempty\"`" + `
	Col  int ` + "`json:\"c,omitempty\"`" + `
}

type Event struct {
	Type  string ` + "`json:\"t\"`" + `
	Flags int    ` + "`json:\"f,omitempty\"`" + `
	Off   int    ` + "`json:\"o\"`" + `
	End   int    ` + "`json:\"e\"`" + `
}

type Result struct {
	Tokens  []Token  ` + "`json:\"tokens,omitempty\"`" + `
	LexLoop bool     ` + "`json:\"lexloop,omitempty\"`" + `
	Accept  bool     ` + "`json:\"accept\"`" + `
	ErrOff  int      ` + "`json:\"erroff\"`" + `
	ErrEnd  int      ` + "`json:\"errend\"`" + `
	ErrLine int      ` + "`json:\"errline,omitempty\"`" + `
	ErrMsg  string   ` + "`json:\"errmsg,omitempty\"`" + `
	Events  []Event  ` + "`json:\"events,omitempty\"`" + `
	Handler [][2]int ` + "`json:\"handler,omitempty\"`" + `
	Steps   int      ` + "`json:\"steps,omitempty\"`" + `
	Aborted bool     ` + "`json:\"aborted,omitempty\"`" + `
	Panic   string   ` + "`json:\"panic,omitempty\"`" + `
	Hang    bool     ` + "`json:\"hang,omitempty\"`" + `
	Values  []string ` + "`json:\"values,omitempty\"`" + `
	Extra   map[string]any ` + "`json:\"extra,omitempty\"`" + `
}

// Abort is panicked by drivers when a step budget is exhausted.
type Abort struct{}

// Values collects strings recorded by semantic actions of the grammar under test.
var Values []string

// Record is called from semantic actions.
func Record(format string, args ...any) { Values = append(Values, fmt.Sprintf(format, args...)) }

func Main(m map[string]func(entry, mode, text string) Result) {
	timeout := 20 * time.Second
	if v, err := strconv.Atoi(os.Getenv("VERIF_CASE_TIMEOUT_MS")); err == nil && v > 0 {
		timeout = time.Duration(v) * time.Millisecond
	}
	in := bufio.NewReaderSize(os.Stdin, 1<<20)
	out := bufio.NewWriterSize(os.Stdout, 1<<20)
	defer out.Flush()
	hangs := 0
	for {
		line, err := in.ReadBytes('\n')
		if len(line) > 1 {
			var req struct{ G, Entry, Mode, Text string }
			if jerr := json.Unmarshal(line, &req); jerr != nil {
				fmt.Fprintln(os.Stderr, "bad request:", jerr)
				os.Exit(3)
			}
			f := m[req.G]
			done := make(chan Result, 1)
			go func() {
				var r Result
				defer func() {
					if e := recover(); e != nil {
						if _, ok := e.(Abort); ok {
							r.Aborted = true
						} else {
							st := string(debug.Stack())
							if len(st) > 1500 {
								st = st[:1500]
							}
							r.Panic = fmt.Sprint(e) + "\n" + st
						}
					}
					r.Values = append(r.Values, Values...)
					done <- r
				}()
				Values = Values[:0]
				r = f(req.Entry, req.Mode, req.Text)
			}()
			var r Result
			select {
			case r = <-done:
			case <-time.After(timeout):
				r = Result{Hang: true}
				hangs++
			}
			data, _ := json.Marshal(r)
			out.Write(data)
			out.WriteByte('\n')
			if hangs > 0 {
				out.Flush()
			}
			if hangs >= 8 {
				out.Flush()
				fmt.Fprintln(os.Stderr, "too many hung cases")
				os.Exit(4)
			}
		}
		if err != nil {
			break
		}
	}
}
`

// StdDriver writes the in-package driver (func VerifRun) for a lexer+parser grammar without
// token streams: a lexer pass recording every token and a parser pass recording listener
// events, error-handler calls and the verdict. Mode "lex" runs only the lexer pass, "parse"
// only the parser pass.
func StdDriver(g *grammar.Grammar, name string) string {
	var b strings.Builder
	o := g.Options
	hasParser := g.Parser != nil && g.Parser.Tables != nil && o.GenParser
	fmt.Fprintf(&b, "package %s\n\nimport (\n\t\"scratch/rt\"\n\t\"scratch/%s/token\"\n", name, name)
	if hasParser && o.Cancellable {
		b.WriteString("\t\"context\"\n")
	}
	b.WriteString(")\n\nvar _ = token.EOI\n\n")
	b.WriteString("func VerifRun(entry, mode, text string) (res rt.Result) {\n")
	b.WriteString("\tif mode != \"parse\" {\n\t\tvar l Lexer\n\t\tl.Init(text)\n\t\tbudget := 4*len(text) + 8\n\t\tfor i := 0; ; i++ {\n\t\t\tif i > budget {\n\t\t\t\tres.LexLoop = true\n\t\t\t\tbreak\n\t\t\t}\n\t\t\ttok := l.Next()\n\t\t\ts, e := l.Pos()\n\t\t\tt := rt.Token{Sym: int(tok), Off: s, End: e}\n")
	if o.TokenLine {
		b.WriteString("\t\t\tt.Line = l.Line()\n")
	}
	if o.TokenColumn {
		b.WriteString("\t\t\tt.Col = l.Column()\n")
	}
	b.WriteString("\t\t\tres.Tokens = append(res.Tokens, t)\n\t\t\tif tok == token.EOI {\n\t\t\t\tbreak\n\t\t\t}\n\t\t}\n\t}\n")
	if !hasParser || o.TokenStream {
		b.WriteString("\treturn res\n}\n")
		return b.String()
	}
	b.WriteString("\tif mode == \"lex\" {\n\t\treturn res\n\t}\n")
	b.WriteString("\tvar l Lexer\n\tl.Init(text)\n\tvar p Parser\n\tbudget := 10000 * (len(text) + 1)\n\t_ = budget\n")
	var initArgs []string
	if g.Parser.IsRecovering {
		b.WriteString("\teh := func(se SyntaxError) bool {\n\t\tres.Handler = append(res.Handler, [2]int{se.Offset, se.Endoffset})\n\t\tif len(res.Handler) > budget {\n\t\t\tpanic(rt.Abort{})\n\t\t}\n\t\treturn mode != \"stop\"\n\t}\n")
		initArgs = append(initArgs, "eh")
	}
	if g.Parser.Types != nil {
		if len(g.Parser.UsedFlags) > 0 {
			b.WriteString("\tlistener := func(t NodeType, flags NodeFlags, offset, endoffset int) {\n\t\tres.Events = append(res.Events, rt.Event{Type: t.String(), Flags: int(flags), Off: offset, End: endoffset})\n")
		} else {
			b.WriteString("\tlistener := func(t NodeType, offset, endoffset int) {\n\t\tres.Events = append(res.Events, rt.Event{Type: t.String(), Off: offset, End: endoffset})\n")
		}
		b.WriteString("\t\tif len(res.Events) > budget {\n\t\t\tpanic(rt.Abort{})\n\t\t}\n\t}\n")
		initArgs = append(initArgs, "listener")
	}
	fmt.Fprintf(&b, "\tp.Init(%s)\n\tvar err error\n", strings.Join(initArgs, ", "))
	ctxArg := ""
	if o.Cancellable {
		ctxArg = "context.Background(), "
	}
	multi := g.Parser.HasMultipleUserInputs()
	b.WriteString("\tswitch entry {\n")
	first := true
	for idx, in := range g.Parser.Inputs {
		if in.Synthetic {
			continue
		}
		nt := g.Parser.Nonterms[in.Nonterm]
		fn := "Parse"
		if multi {
			fn = "Parse" + g.NontermID(in.Nonterm)
		}
		label := fmt.Sprintf("case %q", nt.Name)
		if first {
			label = fmt.Sprintf("case %q, \"\"", nt.Name)
			first = false
		}
		_ = idx
		if nt.Type == "" {
			fmt.Fprintf(&b, "\t%s:\n\t\terr = p.%s(%s&l)\n", label, fn, ctxArg)
		} else {
			fmt.Fprintf(&b, "\t%s:\n\t\t_, err = p.%s(%s&l)\n", label, fn, ctxArg)
		}
	}
	b.WriteString("\tdefault:\n\t\tpanic(\"unknown entry \" + entry)\n\t}\n")
	b.WriteString("\tif err == nil {\n\t\tres.Accept = true\n\t} else if se, ok := err.(SyntaxError); ok {\n\t\tres.ErrOff, res.ErrEnd = se.Offset, se.Endoffset\n")
	if o.TokenLine {
		b.WriteString("\t\tres.ErrLine = se.Line\n")
	}
	b.WriteString("\t\tres.ErrMsg = \"syntax\"\n\t} else {\n\t\tres.ErrMsg = err.Error()\n\t\tres.ErrOff = -1\n\t}\n\treturn res\n}\n")
	return b.String()
}
