// Package core is the plumbing shared by every property check: argument
// handling, evidence and replay files, known-findings matching, violation
// reporting and the crash-containing shard/worker protocol.
package core

import (
	"crypto/sha1"
	"encoding/hex"
	"encoding/json"
	"fmt"
	"os"
	"path/filepath"
	"runtime/debug"
	"sort"
	"strconv"
	"strings"
	"sync"
	"time"
)

// Root is the /verif directory (overridable for `vp run` snapshots).
func Root() string {
	if r := os.Getenv("VERIF_ROOT"); r != "" {
		return r
	}
	return "/verif"
}

// OutDir is where evidence/ and replays/ are written (Root unless VERIF_OUT is set
// by `run` for scratch-worktree runs).
func OutDir() string {
	if r := os.Getenv("VERIF_OUT"); r != "" {
		return r
	}
	return Root()
}

// RepoDir is the textmapper tree under check (/repo unless VERIF_REPO is set).
func RepoDir() string {
	if r := os.Getenv("VERIF_REPO"); r != "" {
		return r
	}
	return "/repo"
}

// Ctx carries one run of one property check.
type Ctx struct {
	ID    string
	Level string // evidence level category
	Tier  string // quick | thorough
	Seed  int64
	Start time.Time
	// Deadline is a soft budget: enumerations poll Expired() between shards and
	// stop with exhaustive=false when it has passed. It is never an oracle.
	Deadline time.Time

	mu          sync.Mutex
	evals       int64
	nontrivial  int64
	states      int64
	transitions int64
	traces      int64
	rule        string
	samples     []any
	extra       map[string]any
	assumptions []string
	exhaustive  bool
	capped      []string
	violations  map[string]*Violation // by key
	order       []string
	known       []Finding
	knownHit    map[int]bool
	outcomes    map[string]int64
}

// Violation is one distinct failing case.
type Violation struct {
	Key    string `json:"key"`
	What   string `json:"what"`
	Replay any    `json:"replay"`
	Count  int    `json:"count"`
	path   string
}

// Finding is an entry of known_findings.json.
type Finding struct {
	Property string `json:"property"`
	Key      string `json:"key"`
	What     string `json:"what"`
	Status   string `json:"status"` // known | fixed
	Commit   string `json:"commit,omitempty"`
}

// Main parses the command line and runs the check.
//
//	<bin> quick|thorough            run the check
//	<bin> replay <path>             re-run a single recorded case (replay func)
//	<bin> worker ...                internal (see RunShards)
func Main(id, level string, run func(c *Ctx), replay func(c *Ctx, raw json.RawMessage) error, worker func(w *Worker)) {
	args := os.Args[1:]
	if len(args) == 0 {
		args = []string{"quick"}
	}
	seed, _ := strconv.ParseInt(os.Getenv("VERIF_SEED"), 10, 64)
	switch args[0] {
	case "worker":
		if worker == nil {
			fmt.Fprintln(os.Stderr, "no worker mode")
			os.Exit(2)
		}
		runWorker(args[1:], worker)
		return
	case "replay":
		if len(args) < 2 || replay == nil {
			fmt.Fprintln(os.Stderr, "usage: replay <path>")
			os.Exit(2)
		}
		data, err := os.ReadFile(args[1])
		if err != nil {
			fmt.Fprintln(os.Stderr, err)
			os.Exit(2)
		}
		var f struct {
			Property string          `json:"property"`
			Key      string          `json:"key"`
			What     string          `json:"what"`
			Replay   json.RawMessage `json:"replay"`
		}
		if err := json.Unmarshal(data, &f); err != nil {
			fmt.Fprintln(os.Stderr, err)
			os.Exit(2)
		}
		c := newCtx(id, level, "quick", seed)
		if err := replay(c, f.Replay); err != nil {
			fmt.Printf("REPLAY property=%s key=%s: still fails: %v\n", id, f.Key, err)
			os.Exit(1)
		}
		fmt.Printf("REPLAY property=%s key=%s: passes\n", id, f.Key)
		return
	}
	tier := args[0]
	if t := os.Getenv("VERIF_TIER"); t != "" && len(os.Args) < 2 {
		tier = t
	}
	if tier != "quick" && tier != "thorough" {
		fmt.Fprintln(os.Stderr, "usage: quick|thorough|replay <path>")
		os.Exit(2)
	}
	c := newCtx(id, level, tier, seed)
	budget := 150 * time.Second
	if tier == "thorough" {
		budget = 25 * time.Minute
	}
	if b := os.Getenv("VERIF_BUDGET_S"); b != "" {
		if n, err := strconv.Atoi(b); err == nil {
			budget = time.Duration(n) * time.Second
		}
	}
	c.Deadline = c.Start.Add(budget)
	run(c)
	os.Exit(c.Finish())
}

func newCtx(id, level, tier string, seed int64) *Ctx {
	c := &Ctx{ID: id, Level: level, Tier: tier, Seed: seed, Start: time.Now(),
		extra: map[string]any{}, violations: map[string]*Violation{}, knownHit: map[int]bool{},
		exhaustive: true, outcomes: map[string]int64{}}
	data, err := os.ReadFile(filepath.Join(Root(), "known_findings.json"))
	if err == nil {
		var all []Finding
		if err := json.Unmarshal(data, &all); err != nil {
			fmt.Fprintln(os.Stderr, "known_findings.json:", err)
			os.Exit(2)
		}
		for _, f := range all {
			if f.Property == id {
				c.known = append(c.known, f)
			}
		}
	}
	return c
}

// Quick reports whether this is the quick tier.
func (c *Ctx) Quick() bool { return c.Tier == "quick" }

// Expired reports whether the soft budget is used up; callers stop enumerating
// and call Capped.
func (c *Ctx) Expired() bool { return time.Now().After(c.Deadline) }

// Capped records that some dimension was not explored completely.
func (c *Ctx) Capped(what string) {
	c.mu.Lock()
	defer c.mu.Unlock()
	c.exhaustive = false
	for _, s := range c.capped {
		if s == what {
			return
		}
	}
	c.capped = append(c.capped, what)
}

func (c *Ctx) Eval(n int64)       { c.mu.Lock(); c.evals += n; c.mu.Unlock() }
func (c *Ctx) Nontrivial(n int64) { c.mu.Lock(); c.nontrivial += n; c.mu.Unlock() }
func (c *Ctx) States(n int64)     { c.mu.Lock(); c.states += n; c.mu.Unlock() }
func (c *Ctx) Transitions(n int64) {
	c.mu.Lock()
	c.transitions += n
	c.mu.Unlock()
}
func (c *Ctx) Traces(n int64) { c.mu.Lock(); c.traces += n; c.mu.Unlock() }
func (c *Ctx) Rule(s string)  { c.mu.Lock(); c.rule = s; c.mu.Unlock() }
func (c *Ctx) Assume(s string) {
	c.mu.Lock()
	c.assumptions = append(c.assumptions, s)
	c.mu.Unlock()
}

// Outcome counts a class of observed outcome (vacuity indicator).
func (c *Ctx) Outcome(class string, n int64) {
	c.mu.Lock()
	c.outcomes[class] += n
	c.mu.Unlock()
}

// Set stores an extra coverage key.
func (c *Ctx) Set(key string, v any) { c.mu.Lock(); c.extra[key] = v; c.mu.Unlock() }

// Add adds n to an integer extra coverage key.
func (c *Ctx) Add(key string, n int64) {
	c.mu.Lock()
	old, _ := c.extra[key].(int64)
	c.extra[key] = old + n
	c.mu.Unlock()
}

// Sample keeps up to 8 sample cases.
func (c *Ctx) Sample(v any) {
	c.mu.Lock()
	if len(c.samples) < 8 {
		c.samples = append(c.samples, v)
	}
	c.mu.Unlock()
}

// SampleCount is the number of samples kept so far.
func (c *Ctx) SampleCount() int { c.mu.Lock(); defer c.mu.Unlock(); return len(c.samples) }

// Violate records a violation. key identifies the failing site + input class (it
// is what known_findings.json matches on: an entry matches when its key equals
// the violation key or is a prefix of it ending at a ':' boundary).
func (c *Ctx) Violate(key, what string, replay any) {
	c.mu.Lock()
	defer c.mu.Unlock()
	if v, ok := c.violations[key]; ok {
		v.Count++
		return
	}
	c.violations[key] = &Violation{Key: key, What: what, Replay: replay, Count: 1}
	c.order = append(c.order, key)
}

// ViolationCount returns the number of distinct violation keys so far.
func (c *Ctx) ViolationCount() int { c.mu.Lock(); defer c.mu.Unlock(); return len(c.violations) }

func (c *Ctx) matchKnown(key string) int {
	for i, f := range c.known {
		if f.Status != "known" {
			continue
		}
		if key == f.Key || strings.HasPrefix(key, f.Key+":") {
			return i
		}
	}
	return -1
}

// Finish prints verdict lines, writes evidence and returns the exit code.
func (c *Ctx) Finish() int {
	c.mu.Lock()
	defer c.mu.Unlock()
	os.MkdirAll(filepath.Join(OutDir(), "replays"), 0o755)
	os.MkdirAll(filepath.Join(OutDir(), "evidence"), 0o755)
	real := 0
	knownLines := map[int]int{}
	sort.Strings(c.order)
	for _, k := range c.order {
		v := c.violations[k]
		if i := c.matchKnown(k); i >= 0 {
			knownLines[i] += v.Count
			continue
		}
		real++
		if real > 25 {
			continue
		}
		h := sha1.Sum([]byte(k))
		p := filepath.Join(OutDir(), "replays", fmt.Sprintf("%s-%s.json", c.ID, hex.EncodeToString(h[:5])))
		data, _ := json.MarshalIndent(map[string]any{"property": c.ID, "key": v.Key, "what": v.What, "replay": v.Replay, "occurrences": v.Count}, "", " ")
		os.WriteFile(p, data, 0o644)
		v.path = p
		fmt.Printf("VIOLATION property=%s replay=%s key=%s :: %s\n", c.ID, p, v.Key, oneLine(v.What))
	}
	var kf []string
	for i, f := range c.known {
		if n, ok := knownLines[i]; ok {
			fmt.Printf("KNOWN-FINDING: property=%s %s [key=%s, %d occurrence(s) this run]\n", c.ID, f.What, f.Key, n)
			kf = append(kf, f.Key)
		}
	}
	cov := map[string]any{}
	for k, v := range c.extra {
		cov[k] = v
	}
	cov["evaluations"] = c.evals
	cov["distinct_nontrivial"] = c.nontrivial
	cov["rule"] = c.rule
	if len(c.samples) == 0 {
		c.samples = []any{"(no sample recorded)"}
	}
	cov["samples"] = c.samples
	if c.states > 0 || c.Level == "model_checking" {
		cov["states"] = c.states
		cov["transitions"] = c.transitions
		cov["traces_validated_against_impl"] = c.traces
	}
	cov["exhaustive"] = c.exhaustive
	if len(c.capped) > 0 {
		cov["capped"] = c.capped
	}
	if len(c.outcomes) > 0 {
		cov["outcome_classes"] = c.outcomes
		cov["distinct_outcomes"] = len(c.outcomes)
	}
	if len(kf) > 0 {
		cov["known_findings_reproduced"] = kf
	}
	ev := map[string]any{
		"property_id": c.ID,
		"tier":        c.Tier,
		"seed":        c.Seed,
		"level":       c.Level,
		"coverage":    cov,
		"assumptions": append([]string{}, c.assumptions...),
		"wall_s":      float64(int(time.Since(c.Start).Seconds()*100)) / 100,
		"violations":  real,
	}
	data, _ := json.MarshalIndent(ev, "", " ")
	evPath := filepath.Join(OutDir(), "evidence", c.ID+".json")
	if err := os.WriteFile(evPath, append(data, '\n'), 0o644); err != nil {
		fmt.Fprintln(os.Stderr, "cannot write evidence:", err)
		return 2
	}
	fmt.Printf("%s %s: evaluations=%d nontrivial=%d states=%d transitions=%d exhaustive=%v violations=%d known=%d wall=%.1fs\n",
		c.ID, c.Tier, c.evals, c.nontrivial, c.states, c.transitions, c.exhaustive, real, len(kf), time.Since(c.Start).Seconds())
	if real > 0 {
		return 1
	}
	return 0
}

func oneLine(s string) string {
	s = strings.ReplaceAll(s, "\n", "\\n")
	if len(s) > 300 {
		s = s[:300] + "…"
	}
	return s
}

// Guard runs f and converts a panic into an error carrying the stack.
func Guard(f func()) (err error) {
	defer func() {
		if r := recover(); r != nil {
			err = fmt.Errorf("panic: %v\n%s", r, trimStack(debug.Stack()))
		}
	}()
	f()
	return nil
}

// PanicSite extracts a short "file:func" site from a Guard error for use in keys.
func PanicSite(err error) string {
	if err == nil {
		return ""
	}
	lines := strings.Split(err.Error(), "\n")
	for i, l := range lines {
		if strings.Contains(l, "inspirer/textmapper/") && !strings.HasPrefix(l, "\t") {
			fn := l
			if j := strings.LastIndex(fn, "/"); j >= 0 {
				fn = fn[j+1:]
			}
			if j := strings.Index(fn, "("); j >= 0 {
				fn = fn[:j]
			}
			_ = i
			return fn
		}
	}
	return "unknown"
}

func trimStack(b []byte) string {
	s := string(b)
	if len(s) > 3000 {
		s = s[:3000]
	}
	return s
}

// ParallelFor runs f(i) for i in [0,n) on all cores.
func ParallelFor(n int, workers int, f func(i int)) {
	if workers <= 0 {
		workers = 16
	}
	var wg sync.WaitGroup
	ch := make(chan int, workers*2)
	for w := 0; w < workers; w++ {
		wg.Add(1)
		go func() {
			defer wg.Done()
			for i := range ch {
				f(i)
			}
		}()
	}
	for i := 0; i < n; i++ {
		ch <- i
	}
	close(ch)
	wg.Wait()
}
