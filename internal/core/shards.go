package core

import (
	"bufio"
	"bytes"
	"encoding/json"
	"fmt"
	"io"
	"os"
	"os/exec"
	"strconv"
	"strings"
	"sync"
	"time"
)

// Worker is the child side of the shard protocol. The check's worker function
// enumerates the same deterministic case list as every other shard and handles
// the cases for which Mine reports true, announcing each (or each block) with
// Case before running code that may exit the process, panic in another
// goroutine or never return.
type Worker struct {
	Tier  string
	Shard int
	N     int
	Start int // skip cases with index < Start
	Only  int // >= 0: run exactly this case
	Args  []string
	out   *bufio.Writer
}

func runWorker(args []string, f func(w *Worker)) {
	if len(args) < 5 {
		fmt.Fprintln(os.Stderr, "worker: bad args")
		os.Exit(2)
	}
	w := &Worker{Tier: args[0], out: bufio.NewWriterSize(os.Stdout, 1<<16)}
	w.Shard, _ = strconv.Atoi(args[1])
	w.N, _ = strconv.Atoi(args[2])
	w.Start, _ = strconv.Atoi(args[3])
	w.Only, _ = strconv.Atoi(args[4])
	w.Args = args[5:]
	f(w)
	w.out.WriteString("$ done\n")
	w.out.Flush()
}

// Mine reports whether this worker owns case idx.
func (w *Worker) Mine(idx int) bool {
	if w.Only >= 0 {
		return idx == w.Only
	}
	return idx >= w.Start && idx%w.N == w.Shard
}

// Case announces the case about to run (flushes earlier output first).
func (w *Worker) Case(idx int, desc string) {
	fmt.Fprintf(w.out, "@ %d %s\n", idx, strings.ReplaceAll(desc, "\n", "\\n"))
	w.out.Flush()
}

// Emit sends one JSON record to the parent.
func (w *Worker) Emit(v any) {
	data, err := json.Marshal(v)
	if err != nil {
		panic(err)
	}
	w.out.WriteString("= ")
	w.out.Write(data)
	w.out.WriteByte('\n')
}

// Flush pushes buffered records.
func (w *Worker) Flush() { w.out.Flush() }

// Quick mirrors Ctx.Quick.
func (w *Worker) Quick() bool { return w.Tier == "quick" }

// ShardOpts configures RunShards.
type ShardOpts struct {
	N        int           // number of worker processes
	Args     []string      // extra args passed to every worker
	Env      []string      // extra environment
	Silence  time.Duration // kill a worker that prints nothing for this long (default 120s)
	Confirm  int           // re-runs of a dying case (default 3)
	OnRecord func(shard int, rec json.RawMessage)
	// OnDeath is called for a confirmed, reproducible death of the worker in one case.
	OnDeath func(idx int, desc string, how string, stderrTail string)
}

type deathInfo struct {
	idx  int
	desc string
	how  string
	tail string
	done bool
}

func (c *Ctx) spawn(o ShardOpts, shard, start, only int, silence time.Duration, onRec func(json.RawMessage)) deathInfo {
	args := []string{"worker", c.Tier, strconv.Itoa(shard), strconv.Itoa(o.N), strconv.Itoa(start), strconv.Itoa(only)}
	args = append(args, o.Args...)
	cmd := exec.Command(os.Args[0], args...)
	cmd.Env = append(os.Environ(), o.Env...)
	var stderr tailBuf
	cmd.Stderr = &stderr
	stdout, _ := cmd.StdoutPipe()
	if err := cmd.Start(); err != nil {
		fmt.Fprintln(os.Stderr, "cannot start worker:", err)
		os.Exit(2)
	}
	var mu sync.Mutex
	last := time.Now()
	d := deathInfo{idx: -1}
	finished := make(chan struct{})
	go func() {
		defer close(finished)
		r := bufio.NewReaderSize(stdout, 1<<20)
		for {
			line, err := r.ReadBytes('\n')
			if len(line) > 2 {
				mu.Lock()
				last = time.Now()
				mu.Unlock()
				switch line[0] {
				case '@':
					rest := strings.TrimRight(string(line[2:]), "\n")
					sp := strings.IndexByte(rest, ' ')
					if sp < 0 {
						sp = len(rest)
					}
					mu.Lock()
					d.idx, _ = strconv.Atoi(rest[:sp])
					if sp < len(rest) {
						d.desc = rest[sp+1:]
					} else {
						d.desc = ""
					}
					mu.Unlock()
				case '=':
					if onRec != nil {
						onRec(json.RawMessage(bytes.TrimSpace(line[2:])))
					}
				case '$':
					mu.Lock()
					d.done = true
					mu.Unlock()
				}
			}
			if err != nil {
				return
			}
		}
	}()
	killed := false
	tick := time.NewTicker(500 * time.Millisecond)
	defer tick.Stop()
loop:
	for {
		select {
		case <-finished:
			break loop
		case <-tick.C:
			mu.Lock()
			idle := time.Since(last)
			mu.Unlock()
			if idle > silence {
				killed = true
				cmd.Process.Kill()
			}
		}
	}
	err := cmd.Wait()
	mu.Lock()
	defer mu.Unlock()
	d.tail = stderr.String()
	if killed {
		d.how = fmt.Sprintf("no progress for %s (killed)", silence)
		d.done = false
	} else if err != nil {
		d.how = err.Error()
		d.done = false
	} else if !d.done {
		d.how = "worker exited 0 without finishing (os.Exit(0)?)"
	}
	return d
}

// RunShards runs o.N worker processes to completion, restarting after deaths.
func (c *Ctx) RunShards(o ShardOpts) {
	if o.Silence == 0 {
		o.Silence = 120 * time.Second
	}
	if o.Confirm == 0 {
		o.Confirm = 3
	}
	var wg sync.WaitGroup
	var cbmu sync.Mutex
	for s := 0; s < o.N; s++ {
		wg.Add(1)
		go func(shard int) {
			defer wg.Done()
			start := 0
			deaths := 0
			for {
				d := c.spawn(o, shard, start, -1, o.Silence, func(r json.RawMessage) {
					if o.OnRecord != nil {
						cbmu.Lock()
						o.OnRecord(shard, r)
						cbmu.Unlock()
					}
				})
				if d.done {
					return
				}
				if d.idx < 0 {
					fmt.Fprintf(os.Stderr, "worker %d died before announcing a case: %s\n%s\n", shard, d.how, d.tail)
					c.Capped(fmt.Sprintf("worker %d died before its first case (%s)", shard, d.how))
					return
				}
				// confirm on the single case, alone
				same := 0
				var cd deathInfo
				for i := 0; i < o.Confirm; i++ {
					cd = c.spawn(o, shard, 0, d.idx, 60*time.Second, nil)
					if !cd.done {
						same++
					}
				}
				if same == o.Confirm {
					if o.OnDeath != nil {
						cbmu.Lock()
						o.OnDeath(d.idx, d.desc, cd.how, cd.tail)
						cbmu.Unlock()
					}
				} else {
					fmt.Fprintf(os.Stderr, "worker %d: death at case %d (%s) not reproducible (%d/%d): %s\n", shard, d.idx, d.desc, same, o.Confirm, d.how)
					c.Add("unreproducible_worker_deaths", 1)
					if same == 0 {
						// the case is fine alone: re-run its records in single mode so nothing is lost
						c.spawn(o, shard, 0, d.idx, 60*time.Second, func(r json.RawMessage) {
							if o.OnRecord != nil {
								cbmu.Lock()
								o.OnRecord(shard, r)
								cbmu.Unlock()
							}
						})
					}
				}
				start = d.idx + 1
				deaths++
				if deaths > 200 {
					c.Capped(fmt.Sprintf("worker %d: more than 200 deaths, shard abandoned at case %d", shard, d.idx))
					return
				}
			}
		}(s)
	}
	wg.Wait()
}

type tailBuf struct {
	mu  sync.Mutex
	buf []byte
}

func (t *tailBuf) Write(p []byte) (int, error) {
	t.mu.Lock()
	defer t.mu.Unlock()
	t.buf = append(t.buf, p...)
	if len(t.buf) > 8192 {
		t.buf = t.buf[len(t.buf)-4096:]
	}
	return len(p), nil
}

func (t *tailBuf) String() string {
	t.mu.Lock()
	defer t.mu.Unlock()
	return string(t.buf)
}

var _ io.Writer = (*tailBuf)(nil)
