// Package reflalr is a textbook LALR(1) construction used as the reference for
// lalr.Compile. It shares nothing with the algorithm under test (which computes
// follow sets over goto transitions with SCCs, DeRemer–Pennello style): here
// LR(1) item sets (item -> lookahead bitmask) are built by closure/goto and
// states with equal LR(0) kernels are merged, iterating to the fixpoint. Since
// closure and goto distribute over unions of item sets, the merged fixpoint is
// exactly the union of the canonical LR(1) lookaheads per kernel, i.e. LALR(1).
//
// Textmapper specifics modelled from the property statements (DESIGN §2.3):
//   - one initial state per input (never merged with anything);
//   - an eoi input seeds its start rules with lookahead {eoi} and the state
//     reached over the input nonterminal gets an extra shift on eoi into a
//     final state; a no-eoi input seeds with "all terminals" and the state
//     reached over the input nonterminal is itself final (no accept action is
//     materialised in the table);
//   - the augmented item S'_i -> S . (eoi) IS part of the kernel of the state reached
//     over the input nonterminal (canonical construction), so that state is private
//     to the input even when the same real items occur as a kernel elsewhere.
package reflalr

import (
	"fmt"
	"sort"

	"verif/internal/gramenum"
)

type Item struct{ Rule, Dot int }

const (
	KindInput = iota
	KindCore
	KindEoi // state after the eoi shift
)

// Augmented items are written Item{Rule: -1-input, Dot: 1}.

type State struct {
	Kind   int
	Input  int
	Kernel []Item          // sorted (KindCore)
	LA     map[Item]uint64 // kernel item -> lookahead mask (bit t = terminal t, bit 0 = eoi)
	// derived after the fixpoint:
	Closure  map[Item]uint64
	Goto     map[int]int    // symbol -> state (terminals incl. 0 = eoi, and nonterminals)
	Reduce   []int          // rules with a complete item, sorted
	ReduceLA map[int]uint64 // rule -> lookahead
	FinalFor []int          // inputs that accept in this state
}

type Automaton struct {
	G      *gramenum.Gram
	Inputs []gramenum.Input
	States []*State
	Final  []int // per input
	nullable []bool
	first    []uint64
}

func kernelKey(kind, input int, k []Item) string {
	return fmt.Sprint(kind, input, k)
}

// Build constructs the reference (canonical) automaton.
func Build(g *gramenum.Gram, inputs []gramenum.Input) *Automaton {
	return build(g, inputs)
}

func build(g *gramenum.Gram, inputs []gramenum.Input) *Automaton {
	a := &Automaton{G: g, Inputs: inputs}
	nsym := g.T + g.N + 1
	a.nullable = make([]bool, nsym)
	a.first = make([]uint64, nsym)
	for t := 0; t <= g.T; t++ {
		a.first[t] = 1 << uint(t)
	}
	for changed := true; changed; {
		changed = false
		for _, r := range g.Rules {
			allNull := true
			f := a.first[r.LHS]
			for _, s := range r.RHS {
				f |= a.first[s]
				if !a.nullable[s] {
					allNull = false
					break
				}
			}
			if f != a.first[r.LHS] {
				a.first[r.LHS] = f
				changed = true
			}
			if allNull && !a.nullable[r.LHS] {
				a.nullable[r.LHS] = true
				changed = true
			}
		}
	}
	allTerms := uint64(1)<<uint(g.T+1) - 1

	index := map[string]int{}
	get := func(kind, input int, kernel []Item) (int, bool) {
		key := kernelKey(kind, input, kernel)
		if i, ok := index[key]; ok {
			return i, false
		}
		s := &State{Kind: kind, Input: input, Kernel: kernel, LA: map[Item]uint64{}}
		a.States = append(a.States, s)
		index[key] = len(a.States) - 1
		return len(a.States) - 1, true
	}
	for i := range inputs {
		get(KindInput, i, nil)
	}
	a.Final = make([]int, len(inputs))

	closure := func(s *State) map[Item]uint64 {
		cl := map[Item]uint64{}
		var work []Item
		add := func(it Item, la uint64) {
			old, ok := cl[it]
			if !ok || old|la != old {
				cl[it] = old | la
				work = append(work, it)
			}
		}
		if s.Kind == KindInput {
			in := inputs[s.Input]
			la := allTerms
			if in.Eoi {
				la = 1
			}
			for ri, r := range g.Rules {
				if r.LHS == in.NT {
					add(Item{ri, 0}, la)
				}
			}
		}
		for it, la := range s.LA {
			add(it, la)
		}
		for len(work) > 0 {
			it := work[len(work)-1]
			work = work[:len(work)-1]
			if it.Rule < 0 {
				continue // augmented item: nothing to close over
			}
			r := g.Rules[it.Rule]
			if it.Dot >= len(r.RHS) {
				continue
			}
			b := r.RHS[it.Dot]
			if b <= g.T {
				continue
			}
			// FIRST(beta la)
			var f uint64
			null := true
			for _, s := range r.RHS[it.Dot+1:] {
				f |= a.first[s]
				if !a.nullable[s] {
					null = false
					break
				}
			}
			if null {
				f |= cl[it]
			}
			for ri, rr := range g.Rules {
				if rr.LHS == b {
					add(Item{ri, 0}, f)
				}
			}
		}
		return cl
	}

	// fixpoint over states: recompute closures, propagate lookaheads into goto targets
	for changed := true; changed; {
		changed = false
		for si := 0; si < len(a.States); si++ {
			s := a.States[si]
			cl := closure(s)
			s.Closure = cl
			// group by next symbol
			bySym := map[int][]Item{}
			for it := range cl {
				if it.Rule < 0 {
					continue
				}
				r := g.Rules[it.Rule]
				if it.Dot < len(r.RHS) {
					bySym[r.RHS[it.Dot]] = append(bySym[r.RHS[it.Dot]], it)
				}
			}
			if s.Goto == nil {
				s.Goto = map[int]int{}
			}
			if s.Kind == KindInput {
				if _, ok := bySym[inputs[s.Input].NT]; !ok {
					bySym[inputs[s.Input].NT] = nil // the augmented item alone
				}
			}
			syms := make([]int, 0, len(bySym))
			for sym := range bySym {
				syms = append(syms, sym)
			}
			sort.Ints(syms)
			for _, sym := range syms {
				items := bySym[sym]
				kernel := make([]Item, len(items))
				for i, it := range items {
					kernel[i] = Item{it.Rule, it.Dot + 1}
				}
				if s.Kind == KindInput && sym == inputs[s.Input].NT {
					kernel = append(kernel, Item{-1 - s.Input, 1})
				}
				sort.Slice(kernel, func(i, j int) bool {
					if kernel[i].Rule != kernel[j].Rule {
						return kernel[i].Rule < kernel[j].Rule
					}
					return kernel[i].Dot < kernel[j].Dot
				})
				ti, isNew := get(KindCore, -1, kernel)
				if isNew {
					changed = true
				}
				s.Goto[sym] = ti
				t := a.States[ti]
				for _, it := range items {
					k := Item{it.Rule, it.Dot + 1}
					if old, ok := t.LA[k]; !ok || old|cl[it] != old {
						t.LA[k] = old | cl[it] // present even when the lookahead set is empty
						changed = true
					}
				}
			}
		}
	}
	// final states and eoi shifts
	for i, in := range inputs {
		last := a.States[i].Goto[in.NT]
		if in.Eoi {
			ti, _ := get(KindEoi, i, nil)
			a.States[ti].Goto = map[int]int{}
			a.States[ti].Closure = map[Item]uint64{}
			a.States[last].Goto[0] = ti
			a.Final[i] = ti
		} else {
			a.Final[i] = last
		}
		a.States[a.Final[i]].FinalFor = append(a.States[a.Final[i]].FinalFor, i)
	}
	for _, s := range a.States {
		s.ReduceLA = map[int]uint64{}
		for it, la := range s.Closure {
			if it.Rule < 0 {
				continue
			}
			if it.Dot == len(g.Rules[it.Rule].RHS) {
				if _, ok := s.ReduceLA[it.Rule]; !ok {
					s.Reduce = append(s.Reduce, it.Rule)
				}
				s.ReduceLA[it.Rule] |= la
			}
		}
		sort.Ints(s.Reduce)
	}
	return a
}

// HasTermShift reports whether the state shifts some terminal (eoi included).
func (a *Automaton) HasTermShift(s *State) bool {
	for sym := range s.Goto {
		if sym <= a.G.T {
			return true
		}
	}
	return false
}

// IsLR0 reports whether the state acts without lookahead by the statement's
// rule: no reduction at all, or a single reduction and no terminal shifts.
func (a *Automaton) IsLR0(s *State) bool {
	return len(s.Reduce) == 0 || (len(s.Reduce) == 1 && !a.HasTermShift(s))
}

// Cell is the set of candidate actions of (state, terminal).
type Cell struct {
	Shift   bool
	Reduces []int // sorted rule indices
}

// CellOf returns the candidate actions for a lookahead-dependent state.
func (a *Automaton) CellOf(s *State, term int) Cell {
	var c Cell
	if _, ok := s.Goto[term]; ok {
		c.Shift = true
	}
	for _, r := range s.Reduce {
		if s.ReduceLA[r]>>uint(term)&1 == 1 {
			c.Reduces = append(c.Reduces, r)
		}
	}
	return c
}

// Conflicts counts unresolved cells when no precedence is declared:
// SR = cells with a shift and >=1 reduction, RR = cells with >=2 reductions and no shift.
func (a *Automaton) Conflicts() (sr, rr int, rules map[int]bool) {
	rules = map[int]bool{}
	for _, s := range a.States {
		if a.IsLR0(s) {
			continue
		}
		for t := 0; t <= a.G.T; t++ {
			c := a.CellOf(s, t)
			switch {
			case c.Shift && len(c.Reduces) >= 1:
				sr++
				for _, r := range c.Reduces {
					rules[r] = true
				}
			case len(c.Reduces) >= 2:
				rr++
				for _, r := range c.Reduces {
					rules[r] = true
				}
			}
		}
	}
	return
}
