// Package tabinterp is a transcription of the generated parser's decode loop
// (gen/templates/go_parser.go.tmpl: parseFunc, lalr, gotoState, resolveDeepLA)
// operating directly on lalr.Tables. It is a *model* of the template; the
// generated-code checks (Layer B) bind it to the template by requiring equal
// observable traces on every generated grammar and input.
package tabinterp

import (
	"fmt"
	"strings"

	"github.com/inspirer/textmapper/lalr"
)

// Step kinds of a trace.
const (
	Shift  = 's'
	Reduce = 'r'
	Accept = 'A'
	Error  = 'E'
	Loop   = 'L' // non-termination proven (exact configuration repeat / unbounded growth without consuming input)
	Broken = 'B' // table access out of range or other impossible situation
)

type Step struct {
	Kind byte
	Arg  int // shift: terminal; reduce: rule; error: index of the offending token (len = eoi)
}

type Trace []Step

func (t Trace) String() string {
	var sb strings.Builder
	for _, s := range t {
		switch s.Kind {
		case Shift:
			fmt.Fprintf(&sb, "s%d ", s.Arg)
		case Reduce:
			fmt.Fprintf(&sb, "r%d ", s.Arg)
		case Accept:
			sb.WriteString("ACC")
		case Error:
			fmt.Fprintf(&sb, "ERR@%d", s.Arg)
		case Loop:
			sb.WriteString("LOOP")
		case Broken:
			fmt.Fprintf(&sb, "BROKEN(%d)", s.Arg)
		}
	}
	return strings.TrimSpace(sb.String())
}

// Last returns the final step.
func (t Trace) Last() Step {
	if len(t) == 0 {
		return Step{Kind: Broken}
	}
	return t[len(t)-1]
}

// Machine interprets one set of tables.
type Machine struct {
	T         *lalr.Tables
	Terms     int  // number of terminals incl. eoi
	Optimized bool // use the displacement encoding (T.Optimized must be set)
}

// gotoDefault is gotoState of the template for the default encoding.
func (m *Machine) gotoDefault(state, symbol int) int {
	t := m.T
	min := t.Goto[symbol]
	max := t.Goto[symbol+1]
	if max-min < 32 {
		for i := min; i < max; i += 2 {
			if t.FromTo[i] == state {
				return t.FromTo[i+1]
			}
		}
	} else {
		for min < max {
			e := (min + max) >> 1 &^ 1
			i := t.FromTo[e]
			if i == state {
				return t.FromTo[e+1]
			} else if i < state {
				min = e + 2
			} else {
				max = e
			}
		}
	}
	return -1
}

// gotoOpt is gotoState of the template for the displacement encoding.
func (m *Machine) gotoOpt(state, symbol int) int {
	o := m.T.Optimized
	numTokens := m.Terms
	if symbol >= numTokens {
		pos := o.Goto[symbol-numTokens] + state
		if pos >= 0 && pos < len(o.Table) && o.Check[pos] == state {
			return o.Table[pos]
		}
		return o.DefGoto[symbol-numTokens]
	}
	action := o.Action[state]
	if action == o.Base {
		return -1
	}
	pos := action + symbol
	if pos >= 0 && pos < len(o.Table) && o.Check[pos] == symbol {
		action = o.Table[pos]
	} else {
		action = o.DefAct[state]
	}
	if action < -1 {
		return -2 - action
	}
	return -1
}

// Goto is the goto function of the selected encoding.
func (m *Machine) Goto(state, symbol int) int {
	if m.Optimized {
		return m.gotoOpt(state, symbol)
	}
	return m.gotoDefault(state, symbol)
}

func (m *Machine) lalr(action, next int) int {
	t := m.T
	a := -action - 3
	for ; t.Lalr[a] >= 0; a += 2 {
		if t.Lalr[a] == next {
			break
		}
	}
	return t.Lalr[a+1]
}

// Action kinds returned by Decide.
const (
	ActError  = -1
	ActShift  = -2
	ActReduce = -3
)

// Decide returns what the parser does in `state` with lookahead terminal next
// (and, for deep lookahead, the following tokens `rest`): (ActReduce, rule),
// (ActShift, target state) or (ActError, 0). needLA reports whether the
// lookahead token was consulted.
func (m *Machine) Decide(state, next int, rest []int) (kind, arg int, needLA bool) {
	if m.Optimized {
		o := m.T.Optimized
		action := o.Action[state]
		if action > o.Base {
			needLA = true
			pos := action + next
			if pos >= 0 && pos < len(o.Table) && o.Check[pos] == next {
				action = o.Table[pos]
			} else {
				action = o.DefAct[state]
			}
		} else {
			action = o.DefAct[state]
		}
		switch {
		case action >= 0:
			return ActReduce, action, needLA
		case action < -1:
			// a shift in a state that did not consult the lookahead still consumes it
			return ActShift, -2 - action, true
		}
		return ActError, 0, needLA
	}
	t := m.T
	action := t.Action[state]
	if action < -2 {
		needLA = true
		action = m.lalr(action, next)
		// resolveDeepLA: consume further tokens from a copy of the lexer
		i := 0
		for action < -2 {
			tok := 0 // eoi repeats at the end of input
			if i < len(rest) {
				tok = rest[i]
			}
			i++
			action = m.lalr(action, tok)
			if i > len(rest)+16 {
				return ActError, -99, true // cannot happen with a finite automaton; reported as Broken by Run
			}
		}
	}
	switch {
	case action >= 0:
		return ActReduce, action, needLA
	case action == -1:
		st := m.gotoDefault(state, next)
		if st >= 0 {
			return ActShift, st, true
		}
		return ActError, 0, true
	}
	return ActError, 0, needLA
}

// Run parses tokens (terminal numbers, without the trailing eoi) from input
// number `input` and returns the action trace. The parser stops as soon as
// the final state of that input is reached.
func (m *Machine) Run(input int, tokens []int) (trace Trace) {
	defer func() {
		if r := recover(); r != nil {
			trace = append(trace, Step{Broken, -1})
		}
	}()
	t := m.T
	end := t.FinalStates[input]
	state := input
	stack := []int{state}
	pos := 0
	next := func() int {
		if pos < len(tokens) {
			return tokens[pos]
		}
		return 0
	}
	seen := map[string]bool{}
	limit := t.NumStates*(len(tokens)+2) + 64
	for state != end {
		var rest []int
		if pos+1 <= len(tokens) {
			rest = tokens[min(pos+1, len(tokens)):]
		}
		kind, arg, _ := m.Decide(state, next(), rest)
		switch kind {
		case ActReduce:
			rule := arg
			ln := t.RuleLen[rule]
			trace = append(trace, Step{Reduce, rule})
			stack = stack[:len(stack)-ln]
			state = m.Goto(stack[len(stack)-1], t.RuleSymbol[rule])
			stack = append(stack, state)
			if state == -1 {
				trace = append(trace, Step{Error, pos})
				return trace
			}
			key := fmt.Sprint(stack)
			if seen[key] || len(stack) > limit {
				trace = append(trace, Step{Loop, pos})
				return trace
			}
			seen[key] = true
		case ActShift:
			trace = append(trace, Step{Shift, next()})
			state = arg
			stack = append(stack, state)
			if pos < len(tokens) {
				pos++
			} else if state != end {
				// eoi was shifted but the parser did not stop: p.next stays eoi forever
				key := "eoi" + fmt.Sprint(stack)
				if seen[key] || len(stack) > limit {
					trace = append(trace, Step{Loop, pos})
					return trace
				}
				seen[key] = true
				continue
			}
			seen = map[string]bool{}
		default:
			if arg == -99 {
				trace = append(trace, Step{Broken, pos})
				return trace
			}
			trace = append(trace, Step{Error, pos})
			return trace
		}
	}
	trace = append(trace, Step{Accept, pos})
	return trace
}
