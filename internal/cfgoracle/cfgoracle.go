// Package cfgoracle decides bounded language questions for plain CFGs by
// dynamic programming over strings — no parsing theory: it is the definition.
package cfgoracle

import (
	"sort"

	"verif/internal/gramenum"
)

// Oracle holds Lang_L and Pref_L for every symbol of a grammar.
type Oracle struct {
	G    *gramenum.Gram
	L    int
	lang []map[string]bool // symbol -> strings of length <= L derived
	pref []map[string]bool // symbol -> strings of length <= L that are prefixes of some sentence (any length)
	prod []bool
}

// New computes the oracle for strings up to length L.
func New(g *gramenum.Gram, L int) *Oracle {
	o := &Oracle{G: g, L: L}
	n := g.T + g.N + 1
	o.lang = make([]map[string]bool, n)
	o.pref = make([]map[string]bool, n)
	o.prod = gramenum.Productive(g)
	for s := 0; s < n; s++ {
		o.lang[s] = map[string]bool{}
		o.pref[s] = map[string]bool{}
	}
	for t := 1; t <= g.T; t++ {
		c := string([]byte{gramenum.TermChar(t)})
		if L >= 1 {
			o.lang[t][c] = true
			o.pref[t][c] = true
		}
		o.pref[t][""] = true
	}
	// eoi (symbol 0) never occurs inside rules.
	for changed := true; changed; {
		changed = false
		for _, r := range g.Rules {
			cur := []string{""}
			for _, s := range r.RHS {
				var next []string
				seen := map[string]bool{}
				for _, a := range cur {
					for b := range o.lang[s] {
						if len(a)+len(b) <= L {
							ab := a + b
							if !seen[ab] {
								seen[ab] = true
								next = append(next, ab)
							}
						}
					}
				}
				cur = next
				if len(cur) == 0 {
					break
				}
			}
			for _, w := range cur {
				if !o.lang[r.LHS][w] {
					o.lang[r.LHS][w] = true
					changed = true
				}
			}
		}
	}
	for changed := true; changed; {
		changed = false
		for _, r := range g.Rules {
			ok := true
			for _, s := range r.RHS {
				if !o.prod[s] {
					ok = false
				}
			}
			if !ok {
				continue // this rule never completes a sentence
			}
			add := func(w string) {
				if !o.pref[r.LHS][w] {
					o.pref[r.LHS][w] = true
					changed = true
				}
			}
			add("")
			cur := []string{""} // strings derived by the symbols before position i
			for _, s := range r.RHS {
				for _, a := range cur {
					for b := range o.pref[s] {
						if len(a)+len(b) <= L {
							add(a + b)
						}
					}
				}
				var next []string
				seen := map[string]bool{}
				for _, a := range cur {
					for b := range o.lang[s] {
						if len(a)+len(b) <= L && !seen[a+b] {
							seen[a+b] = true
							next = append(next, a+b)
						}
					}
				}
				cur = next
				if len(cur) == 0 {
					break
				}
			}
		}
	}
	return o
}

// InLang reports whether w (|w| <= L) is a sentence of nonterminal nt.
func (o *Oracle) InLang(nt int, w string) bool { return o.lang[nt][w] }

// IsPrefix reports whether w (|w| <= L) is a prefix of some sentence of nt.
func (o *Oracle) IsPrefix(nt int, w string) bool { return o.pref[nt][w] }

// Lang returns the sorted sentences of nt with length <= L.
func (o *Oracle) Lang(nt int) []string {
	var out []string
	for w := range o.lang[nt] {
		out = append(out, w)
	}
	sort.Slice(out, func(i, j int) bool {
		if len(out[i]) != len(out[j]) {
			return len(out[i]) < len(out[j])
		}
		return out[i] < out[j]
	})
	return out
}

// LangSize is |Lang_L(nt)|.
func (o *Oracle) LangSize(nt int) int { return len(o.lang[nt]) }

// Productive reports whether sym derives a terminal string.
func (o *Oracle) Productive(sym int) bool { return o.prod[sym] }

// Expect describes the verdict for one input string under one input config.
type Expect struct {
	Accept bool
	// ErrTok is the index of the token at which the error must be reported
	// (len(w) = at end of input) when !Accept.
	ErrTok int
	// ConsumedTok is the number of tokens consumed by an accepting no-eoi parse (shortest sentence prefix).
	ConsumedTok int
}

// Verdict computes the expected outcome of parsing w from input (nt, eoi).
// For eoi inputs: accept iff w in Lang. For no-eoi inputs: accept iff some
// prefix of w is in Lang. On reject, the error is at the first token where
// the consumed prefix stops being a prefix of any sentence.
func (o *Oracle) Verdict(nt int, eoi bool, w string) Expect {
	if eoi {
		if o.lang[nt][w] {
			return Expect{Accept: true, ConsumedTok: len(w)}
		}
	} else {
		for i := 0; i <= len(w); i++ {
			if o.lang[nt][w[:i]] {
				return Expect{Accept: true, ConsumedTok: i}
			}
		}
	}
	// longest prefix of w that is a viable prefix
	i := 0
	for i < len(w) && o.pref[nt][w[:i+1]] {
		i++
	}
	if !o.pref[nt][""] {
		i = 0
	}
	return Expect{Accept: false, ErrTok: i}
}
