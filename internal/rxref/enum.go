package rxref

// Bounded enumeration of patterns and pattern tuples shared by C09 and C24. Everything is
// deterministic and index-addressable so that the checks can shard the space and record a
// case as plain data.

// NamedPatterns is the fixed dictionary of named patterns the enumerated rules may refer to:
// a two-symbol word, a nullable two-symbol pattern (so that `a{q}` = a(ab)? needs a backtracking
// checkpoint with only three AST nodes) and a nested reference inside an alternation.
func NamedPatterns() map[string]*Node {
	return map[string]*Node{
		"p": Cat(Lit('a'), Lit('b')), // ab
		"q": Rep(Ref("p"), 0, 1),     // {p}?  = (ab)?
		"r": Alt(Ref("p"), Lit('a')), // {p}|a
	}
}

// NamedOrder lists the dictionary keys in a fixed order.
var NamedOrder = []string{"p", "q", "r"}

// AtomsC09 are the leaves of C09 patterns: a, b, [ab], ., {eoi}, {p}, {q}, {r}; byte mode adds
// \xe9, é and [\x80-\xff].
func AtomsC09(bytes bool) []*Node {
	atoms := []*Node{
		Lit('a'), Lit('b'), Class(false, [2]rune{'a', 'a'}, [2]rune{'b', 'b'}), Dot(),
		EOI(), Ref("p"), Ref("q"), Ref("r"),
	}
	if bytes {
		atoms = append(atoms, HexLit(0xe9), Lit(0xe9), Class(false, [2]rune{0x80, 0xff}))
	}
	return atoms
}

// AtomsC24 are the leaves of C24 patterns (byte mode only): the C09 byte-mode atoms plus
// [\x80-\xbf], [\xc0-\xff] and [^a].
func AtomsC24() []*Node {
	return append(AtomsC09(true),
		Class(false, [2]rune{0x80, 0xbf}), Class(false, [2]rune{0xc0, 0xff}), Class(true, [2]rune{'a', 'a'}))
}

// Regexes returns bySize[s] = every AST with exactly s nodes (s = 1..max; bySize[0] is empty)
// built from the atoms with the unary operators * + ? {1,2} and the binary operators
// concatenation and alternation. Order: unary forms of the smaller ASTs first (operator-major),
// then concatenations, then alternations, by (left size, left index, right index).
func Regexes(atoms []*Node, max int) [][]*Node {
	bySize := make([][]*Node, max+1)
	if max >= 1 {
		bySize[1] = append(bySize[1], atoms...)
	}
	reps := [][2]int{{0, -1}, {1, -1}, {0, 1}, {1, 2}}
	for s := 2; s <= max; s++ {
		for _, sub := range bySize[s-1] {
			for _, r := range reps {
				bySize[s] = append(bySize[s], Rep(sub, r[0], r[1]))
			}
		}
		for _, kind := range []Kind{KCat, KAlt} {
			for ls := 1; ls <= s-2; ls++ {
				rs := s - 1 - ls
				for _, l := range bySize[ls] {
					for _, r := range bySize[rs] {
						bySize[s] = append(bySize[s], &Node{Kind: kind, Sub: []*Node{l, r}})
					}
				}
			}
		}
	}
	return bySize
}

// Compositions returns every way to write total as an ordered sum of k parts, each in 1..max,
// in lexicographic order.
func Compositions(k, total, max int) [][]int {
	var out [][]int
	cur := make([]int, k)
	var rec func(i, left int)
	rec = func(i, left int) {
		if i == k-1 {
			if left >= 1 && left <= max {
				cur[i] = left
				out = append(out, append([]int{}, cur...))
			}
			return
		}
		for v := 1; v <= max && v <= left-(k-1-i); v++ {
			cur[i] = v
			rec(i+1, left-v)
		}
	}
	if k > 0 {
		rec(0, total)
	}
	return out
}

// TupleCount is the number of pattern tuples with the given size vector.
func TupleCount(bySize [][]*Node, sizes []int) int {
	n := 1
	for _, s := range sizes {
		n *= len(bySize[s])
	}
	return n
}

// Tuple decodes tuple number idx (0 <= idx < TupleCount) of a size vector; the last component
// varies fastest. out must have len(sizes) elements.
func Tuple(bySize [][]*Node, sizes []int, idx int, out []*Node) {
	for i := len(sizes) - 1; i >= 0; i-- {
		l := bySize[sizes[i]]
		out[i] = l[idx%len(l)]
		idx /= len(l)
	}
}

// PrioVectors returns the priority assignments (each 0 or 1) of k rules that differ relatively:
// the all-ones vector is left out because it orders the rules like the all-zeros one.
func PrioVectors(k int) [][]int {
	var out [][]int
	for code := 0; code < 1<<uint(k); code++ {
		if code != 0 && code == 1<<uint(k)-1 {
			continue
		}
		v := make([]int, k)
		for i := range v {
			v[i] = code >> uint(i) & 1
		}
		out = append(out, v)
	}
	return out
}

// Words returns every concatenation of at most maxLen letters, shortest first, each length in
// lexicographic order of the letter indexes.
func Words(letters []string, maxLen int) []string {
	out := []string{""}
	level := []string{""}
	for l := 0; l < maxLen; l++ {
		var next []string
		for _, s := range level {
			for _, a := range letters {
				next = append(next, s+a)
			}
		}
		out = append(out, next...)
		level = next
	}
	return out
}
