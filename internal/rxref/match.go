package rxref

import (
	"fmt"
	"sort"
	"strconv"
	"strings"
	"unicode"
	"unicode/utf8"
)

// Opts selects the matching mode.
type Opts struct {
	Fold  bool // case-insensitive
	Bytes bool // symbols are bytes (0..255) instead of runes
}

// MaxSym is the largest ordinary symbol of the mode.
func (o Opts) MaxSym() int32 {
	if o.Bytes {
		return 0xff
	}
	return unicode.MaxRune
}

// EOISym is the end-of-input pseudo symbol. Conceptually every input is followed by an
// unbounded run of EOISym.
const EOISym int32 = -1

// Set is a sorted list of disjoint inclusive symbol ranges (flattened pairs).
type Set []int32

// Contains reports whether the set has symbol s.
func (s Set) Contains(sym int32) bool {
	for i := 0; i < len(s); i += 2 {
		if sym >= s[i] && sym <= s[i+1] {
			return true
		}
	}
	return false
}

func normalize(pairs [][2]int32) Set {
	sort.Slice(pairs, func(i, j int) bool { return pairs[i][0] < pairs[j][0] })
	var out Set
	for _, p := range pairs {
		if p[0] > p[1] {
			continue
		}
		if n := len(out); n > 0 && p[0] <= out[n-1]+1 {
			if p[1] > out[n-1] {
				out[n-1] = p[1]
			}
			continue
		}
		out = append(out, p[0], p[1])
	}
	return out
}

func complement(s Set, max int32) Set {
	var out Set
	next := int32(0)
	for i := 0; i < len(s); i += 2 {
		if s[i] > next {
			out = append(out, next, s[i]-1)
		}
		next = s[i+1] + 1
	}
	if next <= max {
		out = append(out, next, max)
	}
	return out
}

// foldOrbit returns the characters that are case-insensitively equal to c (c included).
// Byte mode: case only exists for ASCII letters, bytes >= 0x80 are not characters.
func foldOrbit(c int32, bytes bool) []int32 {
	out := []int32{c}
	if bytes && c >= 0x80 {
		return out
	}
	for f := unicode.SimpleFold(rune(c)); f != rune(c); f = unicode.SimpleFold(f) {
		if bytes && f >= 0x80 {
			continue
		}
		out = append(out, int32(f))
	}
	return out
}

// --- core expressions (hash-consed) ---------------------------------------------------------------

type ckind uint8

const (
	cEmpty ckind = iota // matches nothing
	cEps                // matches the empty string
	cSet                // one symbol out of a set
	cCat                // a b
	cAlt                // a | b | ...
	cStar               // a*
)

type cnode struct {
	kind     ckind
	set      Set
	a, b     int32
	alts     []int32
	nullable bool
}

// State is a (hash-consed) residual expression; equal languages built the same way get the same id.
type State = int32

const (
	Empty State = 0
	Eps   State = 1
)

// Matcher holds hash-consed expressions and memoized derivatives for one mode and one
// dictionary of named patterns.
type Matcher struct {
	Opts  Opts
	Named map[string]*Node

	nodes  []cnode
	intern map[string]State
	comp   map[*Node]State
	inRef  map[string]bool

	// memoized derivatives: deriv[state][slot], slot = dense index of a symbol seen so far
	deriv    [][]State
	lowSlot  [257]int16 // symbols -1..255 -> slot+1 (0 = none yet)
	highSlot map[int32]int16
	numSlots int16
}

const unknown State = -1

// NewMatcher creates a matcher.
func NewMatcher(opts Opts, named map[string]*Node) *Matcher {
	m := &Matcher{Opts: opts, Named: named, intern: map[string]State{}, highSlot: map[int32]int16{}, comp: map[*Node]State{}, inRef: map[string]bool{}}
	m.nodes = append(m.nodes, cnode{kind: cEmpty}, cnode{kind: cEps, nullable: true})
	return m
}

// NumNodes is the number of distinct residual expressions seen so far.
func (m *Matcher) NumNodes() int { return len(m.nodes) }

func (m *Matcher) add(key string, n cnode) State {
	if id, ok := m.intern[key]; ok {
		return id
	}
	id := State(len(m.nodes))
	m.nodes = append(m.nodes, n)
	m.intern[key] = id
	return id
}

func (m *Matcher) mkSet(s Set) State {
	if len(s) == 0 {
		return Empty
	}
	var sb strings.Builder
	sb.WriteByte('S')
	for _, v := range s {
		sb.WriteString(strconv.Itoa(int(v)))
		sb.WriteByte(',')
	}
	return m.add(sb.String(), cnode{kind: cSet, set: s})
}

func (m *Matcher) mkCat(a, b State) State {
	switch {
	case a == Empty || b == Empty:
		return Empty
	case a == Eps:
		return b
	case b == Eps:
		return a
	}
	if na := m.nodes[a]; na.kind == cCat { // keep concatenations right-nested
		return m.mkCat(na.a, m.mkCat(na.b, b))
	}
	key := "C" + strconv.Itoa(int(a)) + "," + strconv.Itoa(int(b))
	return m.add(key, cnode{kind: cCat, a: a, b: b, nullable: m.nodes[a].nullable && m.nodes[b].nullable})
}

func (m *Matcher) mkAlt(parts ...State) State {
	var flat []int32
	for _, p := range parts {
		if p == Empty {
			continue
		}
		if n := m.nodes[p]; n.kind == cAlt {
			flat = append(flat, n.alts...)
		} else {
			flat = append(flat, p)
		}
	}
	sort.Slice(flat, func(i, j int) bool { return flat[i] < flat[j] })
	uniq := flat[:0]
	for i, v := range flat {
		if i == 0 || v != flat[i-1] {
			uniq = append(uniq, v)
		}
	}
	switch len(uniq) {
	case 0:
		return Empty
	case 1:
		return uniq[0]
	}
	var sb strings.Builder
	sb.WriteByte('A')
	nullable := false
	for _, v := range uniq {
		sb.WriteString(strconv.Itoa(int(v)))
		sb.WriteByte(',')
		nullable = nullable || m.nodes[v].nullable
	}
	return m.add(sb.String(), cnode{kind: cAlt, alts: append([]int32{}, uniq...), nullable: nullable})
}

func (m *Matcher) mkStar(a State) State {
	if a == Empty || a == Eps {
		return Eps
	}
	if m.nodes[a].kind == cStar {
		return a
	}
	return m.add("K"+strconv.Itoa(int(a)), cnode{kind: cStar, a: a, nullable: true})
}

// symSet returns the set of symbols matched by "the character c" in the matcher's mode.
func (m *Matcher) charSet(c int32) Set {
	if !m.Opts.Fold {
		return Set{c, c}
	}
	var pairs [][2]int32
	for _, f := range foldOrbit(c, m.Opts.Bytes) {
		pairs = append(pairs, [2]int32{f, f})
	}
	return normalize(pairs)
}

// LeafSets returns the symbol sets of the leaves of n (in order of appearance, named patterns
// expanded). A byte-mode literal above 0x7f contributes one set per UTF-8 byte.
func (m *Matcher) LeafSets(n *Node) ([]Set, error) {
	var out []Set
	err := m.leafSets(n, &out, map[string]bool{})
	return out, err
}

func (m *Matcher) leafSets(n *Node, out *[]Set, busy map[string]bool) error {
	switch n.Kind {
	case KLit:
		for _, s := range m.litSets(n.R) {
			*out = append(*out, s)
		}
	case KClass:
		*out = append(*out, m.classSet(n))
	case KDot:
		*out = append(*out, m.dotSet())
	case KEOI:
		*out = append(*out, Set{EOISym, EOISym})
	case KRef:
		p, ok := m.Named[n.Name]
		if !ok {
			return fmt.Errorf("unknown named pattern %q", n.Name)
		}
		if busy[n.Name] {
			return fmt.Errorf("recursive named pattern %q", n.Name)
		}
		busy[n.Name] = true
		defer delete(busy, n.Name)
		return m.leafSets(p, out, busy)
	default:
		for _, c := range n.Sub {
			if err := m.leafSets(c, out, busy); err != nil {
				return err
			}
		}
	}
	return nil
}

// litSets: a literal character is one symbol in rune mode. In byte mode it is the sequence of its
// UTF-8 bytes (only ASCII letters have case there).
func (m *Matcher) litSets(r rune) []Set {
	if !m.Opts.Bytes || r < 0x80 {
		return []Set{m.charSet(int32(r))}
	}
	var buf [4]byte
	n := utf8.EncodeRune(buf[:], r)
	var out []Set
	for _, b := range buf[:n] {
		out = append(out, Set{int32(b), int32(b)})
	}
	return out
}

func (m *Matcher) dotSet() Set {
	return Set{0, '\n' - 1, '\n' + 1, m.Opts.MaxSym()}
}

// classSet: the listed ranges, closed under case folding when Fold is set, then complemented
// within [0, MaxSym] when negated. The end-of-input symbol is never a member.
func (m *Matcher) classSet(n *Node) Set {
	max := m.Opts.MaxSym()
	var pairs [][2]int32
	for _, r := range n.Ranges {
		lo, hi := int32(r[0]), int32(r[1])
		if hi > max {
			hi = max
		}
		pairs = append(pairs, [2]int32{lo, hi})
		if m.Opts.Fold {
			for c := lo; c <= hi; c++ {
				for _, f := range foldOrbit(c, m.Opts.Bytes) {
					pairs = append(pairs, [2]int32{f, f})
				}
			}
		}
	}
	s := normalize(pairs)
	if n.Neg {
		s = complement(s, max)
	}
	return s
}

// Compile translates an AST into a residual expression.
func (m *Matcher) Compile(n *Node) (State, error) {
	if id, ok := m.comp[n]; ok {
		return id, nil
	}
	id, err := m.compile(n)
	if err == nil {
		m.comp[n] = id
	}
	return id, err
}

func (m *Matcher) compile(n *Node) (State, error) {
	switch n.Kind {
	case KLit:
		id := Eps
		sets := m.litSets(n.R)
		for i := len(sets) - 1; i >= 0; i-- {
			id = m.mkCat(m.mkSet(sets[i]), id)
		}
		return id, nil
	case KClass:
		return m.mkSet(m.classSet(n)), nil
	case KDot:
		return m.mkSet(m.dotSet()), nil
	case KEOI:
		return m.mkSet(Set{EOISym, EOISym}), nil
	case KRef:
		p, ok := m.Named[n.Name]
		if !ok {
			return Empty, fmt.Errorf("unknown named pattern %q", n.Name)
		}
		if m.inRef[n.Name] {
			return Empty, fmt.Errorf("recursive named pattern %q", n.Name)
		}
		m.inRef[n.Name] = true
		defer delete(m.inRef, n.Name)
		return m.compile(p)
	case KCat:
		id := Eps
		for i := len(n.Sub) - 1; i >= 0; i-- {
			c, err := m.compile(n.Sub[i])
			if err != nil {
				return Empty, err
			}
			id = m.mkCat(c, id)
		}
		return id, nil
	case KAlt:
		var parts []State
		for _, s := range n.Sub {
			c, err := m.compile(s)
			if err != nil {
				return Empty, err
			}
			parts = append(parts, c)
		}
		return m.mkAlt(parts...), nil
	case KRep:
		c, err := m.compile(n.Sub[0])
		if err != nil {
			return Empty, err
		}
		// x{min,max} = x^min (x (x (...)?)?)?   x{min,} = x^min x*
		var tail State
		if n.Max == -1 {
			tail = m.mkStar(c)
		} else {
			tail = Eps
			for i := n.Min; i < n.Max; i++ {
				tail = m.mkAlt(Eps, m.mkCat(c, tail))
			}
		}
		id := tail
		for i := 0; i < n.Min; i++ {
			id = m.mkCat(c, id)
		}
		return id, nil
	}
	return Empty, fmt.Errorf("bad node kind %d", n.Kind)
}

// Nullable reports whether s matches the empty string.
func (m *Matcher) Nullable(s State) bool { return m.nodes[s].nullable }

// Dead reports whether s matches nothing at all (as a language over symbols + EOISym).
func (m *Matcher) Dead(s State) bool { return s == Empty }

// Derive returns the residual of s after consuming one symbol (a rune/byte value, or EOISym).
func (m *Matcher) Derive(s State, sym int32) State {
	if s == Empty || s == Eps {
		return Empty
	}
	slot := m.slot(sym)
	if int(s) < len(m.deriv) {
		if row := m.deriv[s]; int(slot) < len(row) && row[slot] != unknown {
			return row[slot]
		}
	}
	n := m.nodes[s]
	var d State
	switch n.kind {
	case cSet:
		if n.set.Contains(sym) {
			d = Eps
		} else {
			d = Empty
		}
	case cCat:
		d = m.mkCat(m.Derive(n.a, sym), n.b)
		if m.nodes[n.a].nullable {
			d = m.mkAlt(d, m.Derive(n.b, sym))
		}
	case cAlt:
		parts := make([]State, 0, len(n.alts))
		for _, a := range n.alts {
			parts = append(parts, m.Derive(a, sym))
		}
		d = m.mkAlt(parts...)
	case cStar:
		d = m.mkCat(m.Derive(n.a, sym), s)
	}
	for int(s) >= len(m.deriv) {
		m.deriv = append(m.deriv, nil)
	}
	row := m.deriv[s]
	for int(slot) >= len(row) {
		row = append(row, unknown)
	}
	row[slot] = d
	m.deriv[s] = row
	return d
}

func (m *Matcher) slot(sym int32) int16 {
	if sym < 256 {
		if v := m.lowSlot[sym+1]; v != 0 {
			return v - 1
		}
		m.numSlots++
		m.lowSlot[sym+1] = m.numSlots
		return m.numSlots - 1
	}
	if v, ok := m.highSlot[sym]; ok {
		return v
	}
	m.numSlots++
	m.highSlot[sym] = m.numSlots - 1
	return m.numSlots - 1
}

// Matches reports whether the whole symbol sequence is in the language of s.
func (m *Matcher) Matches(s State, syms []int32) bool {
	for _, x := range syms {
		s = m.Derive(s, x)
	}
	return m.Nullable(s)
}

// Sym is one decoded input symbol with its width in bytes.
type Sym struct {
	Val   int32
	Width int
}

// Decode splits an input text into symbols. Byte mode: one symbol per byte. Rune mode: UTF-8
// decoding; the property statement does not say what a malformed byte is in rune mode, so the
// reference follows Go's (and Tables.Scan's) convention: every byte that does not start a valid
// encoding is the one-byte-wide symbol U+FFFD.
func Decode(text string, bytes bool) []Sym {
	var out []Sym
	for i := 0; i < len(text); {
		if bytes {
			out = append(out, Sym{int32(text[i]), 1})
			i++
			continue
		}
		r, w := utf8.DecodeRuneInString(text[i:])
		out = append(out, Sym{int32(r), w})
		i += w
	}
	return out
}
