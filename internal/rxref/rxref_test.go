package rxref

import (
	"fmt"
	"regexp"
	"strings"
	"testing"
)

// goSyntax renders the AST for Go's regexp package (an unrelated implementation) so that the
// derivative matcher can be cross-checked. Byte mode is emulated by mapping byte b to rune U+00bb.
func goSyntax(n *Node, named map[string]*Node, bytes bool, sb *strings.Builder) {
	hex := func(r rune) { fmt.Fprintf(sb, `\x{%x}`, r) }
	switch n.Kind {
	case KLit:
		if bytes && n.R >= 0x80 {
			for _, b := range []byte(string(n.R)) {
				hex(rune(b))
			}
			return
		}
		hex(n.R)
	case KClass:
		sb.WriteString("[")
		if n.Neg {
			sb.WriteString("^")
		}
		for _, r := range n.Ranges {
			hex(r[0])
			sb.WriteString("-")
			hex(r[1])
		}
		sb.WriteString("]")
		// byte mode: the complement is taken within 0..255; the test inputs stay below U+0100
	case KDot:
		sb.WriteString(".")
	case KCat:
		for _, c := range n.Sub {
			sb.WriteString("(?:")
			goSyntax(c, named, bytes, sb)
			sb.WriteString(")")
		}
	case KAlt:
		for i, c := range n.Sub {
			if i > 0 {
				sb.WriteString("|")
			}
			sb.WriteString("(?:")
			goSyntax(c, named, bytes, sb)
			sb.WriteString(")")
		}
	case KRep:
		sb.WriteString("(?:")
		goSyntax(n.Sub[0], named, bytes, sb)
		sb.WriteString(")")
		switch {
		case n.Min == 0 && n.Max == -1:
			sb.WriteString("*")
		case n.Min == 1 && n.Max == -1:
			sb.WriteString("+")
		case n.Min == 0 && n.Max == 1:
			sb.WriteString("?")
		default:
			sb.WriteString("{1,2}")
		}
	case KRef:
		sb.WriteString("(?:")
		goSyntax(named[n.Name], named, bytes, sb)
		sb.WriteString(")")
	}
}

func words(alpha []string, maxLen int) []string {
	out := []string{""}
	level := []string{""}
	for l := 0; l < maxLen; l++ {
		var next []string
		for _, s := range level {
			for _, a := range alpha {
				next = append(next, s+a)
			}
		}
		out = append(out, next...)
		level = next
	}
	return out
}

func TestAgainstGoRegexp(t *testing.T) {
	named := NamedPatterns()
	for _, bytes := range []bool{false, true} {
		for _, fold := range []bool{false, true} {
			if bytes && fold {
				continue // Go's (?i) would fold Latin-1 letters, byte mode only folds ASCII
			}
			var atoms []*Node
			src := AtomsC09(bytes)
			if bytes {
				src = AtomsC24()
			}
			for _, a := range src {
				if a.Kind != KEOI {
					atoms = append(atoms, a)
				}
			}
			m := NewMatcher(Opts{Fold: fold, Bytes: bytes}, named)
			inputs := words([]string{"a", "b", "c", "A", "é", "\n", "\xff", "\x80"}, 3)
			checked := 0
			for _, list := range Regexes(atoms, 4) {
				for _, n := range list {
					if n.Size() == 4 && checked%7 != 0 { // a seventh of the largest size keeps the test short
						checked++
						continue
					}
					checked++
					var sb strings.Builder
					sb.WriteString("^(?:")
					goSyntax(n, named, bytes, &sb)
					sb.WriteString(")$")
					src := sb.String()
					if fold {
						src = "(?i)" + src
					}
					re, err := regexp.Compile(src)
					if err != nil {
						t.Fatalf("%s: %v", src, err)
					}
					st, err := m.Compile(n)
					if err != nil {
						t.Fatal(err)
					}
					for _, in := range inputs {
						var syms []int32
						var goIn string
						for _, s := range Decode(in, bytes) {
							syms = append(syms, s.Val)
						}
						if bytes {
							rs := make([]rune, len(in))
							for i := 0; i < len(in); i++ {
								rs[i] = rune(in[i])
							}
							goIn = string(rs)
						} else {
							goIn = in
						}
						if got, want := m.Matches(st, syms), re.MatchString(goIn); got != want {
							t.Fatalf("bytes=%v fold=%v /%s/ (go: %s) on %q: derivative matcher %v, Go regexp %v", bytes, fold, n, src, in, got, want)
						}
					}
				}
			}
			if checked == 0 {
				t.Fatal("nothing checked")
			}
		}
	}
}

func TestPrinter(t *testing.T) {
	cases := map[string]*Node{
		`a`:           Lit('a'),
		`\xe9`:        HexLit(0xe9),
		`é`:           Lit(0xe9),
		`[ab]`:        Class(false, [2]rune{'a', 'a'}, [2]rune{'b', 'b'}),
		`[a-c]`:       Class(false, [2]rune{'a', 'c'}),
		`[\x80-\xff]`: Class(false, [2]rune{0x80, 0xff}),
		`[^a]`:        Class(true, [2]rune{'a', 'a'}),
		`(ab)*`:       Rep(Cat(Lit('a'), Lit('b')), 0, -1),
		`(a|b){1,2}`:  Rep(Alt(Lit('a'), Lit('b')), 1, 2),
		`a*+`:         Rep(Rep(Lit('a'), 0, -1), 1, -1),
		`a{p}`:        Cat(Lit('a'), Ref("p")),
		`{eoi}?`:      Rep(EOI(), 0, 1),
		`(a|b).`:      Cat(Alt(Lit('a'), Lit('b')), Dot()),
		`a|b?`:        Alt(Lit('a'), Rep(Lit('b'), 0, 1)),
		`\.\*`:        Cat(Lit('.'), Lit('*')),
	}
	for want, n := range cases {
		if got := n.String(); got != want {
			t.Errorf("got %s want %s", got, want)
		}
	}
}
