// Package rxref is a small, deliberately boring reference for textmapper lexer patterns: an AST,
// a printer to the pattern syntax accepted by lex.ParseRegexp, a matcher by Brzozowski
// derivatives over runes or bytes, and the bounded enumerator of patterns / rule sets shared by the
// C09 and C24 checks. It is written from the documented semantics and shares no code with
// /repo/lex (only Go's unicode/utf8 tables are used).
package rxref

import (
	"fmt"
	"strings"
)

// Kind is the kind of an AST node.
type Kind uint8

const (
	KLit   Kind = iota // one character (R); in byte mode: the UTF-8 bytes of R
	KClass             // [ranges] or [^ranges]; in byte mode the ranges are byte values
	KDot               // . = every symbol except '\n'
	KCat               // Sub[0] Sub[1] ...
	KAlt               // Sub[0] | Sub[1] | ...
	KRep               // Sub[0]{Min,Max}; Max == -1 means unbounded
	KEOI               // {eoi}: the end-of-input pseudo symbol
	KRef               // {Name}: reference to a named pattern
)

// Node is a pattern AST node.
type Node struct {
	Kind   Kind      `json:"k"`
	R      rune      `json:"r,omitempty"`      // KLit
	Hex    bool      `json:"hex,omitempty"`    // KLit: spell it \xHH instead of the raw character
	Ranges [][2]rune `json:"ranges,omitempty"` // KClass, inclusive pairs
	Neg    bool      `json:"neg,omitempty"`    // KClass
	Sub    []*Node   `json:"sub,omitempty"`    // KCat, KAlt, KRep
	Min    int       `json:"min,omitempty"`    // KRep
	Max    int       `json:"max,omitempty"`    // KRep; -1 = unbounded
	Name   string    `json:"name,omitempty"`   // KRef
}

// Constructors.
func Lit(r rune) *Node    { return &Node{Kind: KLit, R: r} }
func HexLit(r rune) *Node { return &Node{Kind: KLit, R: r, Hex: true} }
func Class(neg bool, ranges ...[2]rune) *Node {
	return &Node{Kind: KClass, Neg: neg, Ranges: ranges}
}
func Dot() *Node             { return &Node{Kind: KDot} }
func Cat(sub ...*Node) *Node { return &Node{Kind: KCat, Sub: sub} }
func Alt(sub ...*Node) *Node { return &Node{Kind: KAlt, Sub: sub} }
func Rep(n *Node, min, max int) *Node {
	return &Node{Kind: KRep, Sub: []*Node{n}, Min: min, Max: max}
}
func EOI() *Node            { return &Node{Kind: KEOI} }
func Ref(name string) *Node { return &Node{Kind: KRef, Name: name} }

// Size is the number of AST nodes.
func (n *Node) Size() int {
	s := 1
	for _, c := range n.Sub {
		s += c.Size()
	}
	return s
}

// HasKind reports whether a node of kind k occurs in n (named patterns are not followed).
func (n *Node) HasKind(k Kind) bool {
	if n.Kind == k {
		return true
	}
	for _, c := range n.Sub {
		if c.HasKind(k) {
			return true
		}
	}
	return false
}

func isIdent(r rune) bool {
	return r >= 'a' && r <= 'z' || r >= 'A' && r <= 'Z' || r >= '0' && r <= '9' || r == '_'
}

func writeLitChar(b *strings.Builder, r rune, hex bool) {
	switch {
	case hex && r <= 0xff:
		fmt.Fprintf(b, `\x%02x`, r)
	case hex && r <= 0xffff:
		fmt.Fprintf(b, `\u%04x`, r)
	case hex:
		fmt.Fprintf(b, `\U%08x`, r)
	case isIdent(r) || r >= 0x80:
		b.WriteRune(r)
	case r < 0x20 || r == 0x7f:
		fmt.Fprintf(b, `\x%02x`, r)
	default: // ASCII punctuation and space: a backslash makes any of them literal
		b.WriteByte('\\')
		b.WriteRune(r)
	}
}

func writeClassChar(b *strings.Builder, r rune) {
	switch {
	case isIdent(r):
		b.WriteRune(r)
	case r <= 0xff:
		fmt.Fprintf(b, `\x%02x`, r)
	case r <= 0xffff:
		fmt.Fprintf(b, `\u%04x`, r)
	default:
		fmt.Fprintf(b, `\U%08x`, r)
	}
}

// String prints the node in textmapper pattern syntax.
func (n *Node) String() string {
	var b strings.Builder
	n.write(&b)
	return b.String()
}

func (n *Node) write(b *strings.Builder) {
	switch n.Kind {
	case KLit:
		writeLitChar(b, n.R, n.Hex)
	case KClass:
		b.WriteByte('[')
		if n.Neg {
			b.WriteByte('^')
		}
		for _, r := range n.Ranges {
			writeClassChar(b, r[0])
			if r[1] != r[0] {
				b.WriteByte('-')
				writeClassChar(b, r[1])
			}
		}
		b.WriteByte(']')
	case KDot:
		b.WriteByte('.')
	case KCat:
		for _, c := range n.Sub {
			if c.Kind == KAlt {
				b.WriteByte('(')
				c.write(b)
				b.WriteByte(')')
			} else {
				c.write(b)
			}
		}
	case KAlt:
		for i, c := range n.Sub {
			if i > 0 {
				b.WriteByte('|')
			}
			if c.Kind == KAlt {
				b.WriteByte('(')
				c.write(b)
				b.WriteByte(')')
			} else {
				c.write(b)
			}
		}
	case KRep:
		c := n.Sub[0]
		if c.Kind == KCat || c.Kind == KAlt {
			b.WriteByte('(')
			c.write(b)
			b.WriteByte(')')
		} else {
			c.write(b)
		}
		switch {
		case n.Min == 0 && n.Max == -1:
			b.WriteByte('*')
		case n.Min == 1 && n.Max == -1:
			b.WriteByte('+')
		case n.Min == 0 && n.Max == 1:
			b.WriteByte('?')
		case n.Max == -1:
			fmt.Fprintf(b, "{%d,}", n.Min)
		case n.Max == n.Min:
			fmt.Fprintf(b, "{%d}", n.Min)
		default:
			fmt.Fprintf(b, "{%d,%d}", n.Min, n.Max)
		}
	case KEOI:
		b.WriteString("{eoi}")
	case KRef:
		b.WriteString("{" + n.Name + "}")
	}
}
