package shipped

import (
	"fmt"
	"strings"
	"unicode"
	"unicode/utf8"

	"github.com/inspirer/textmapper/parsers/js"
	jstok "github.com/inspirer/textmapper/parsers/js/token"
	"github.com/inspirer/textmapper/parsers/json"
	jsontok "github.com/inspirer/textmapper/parsers/json/token"
	"github.com/inspirer/textmapper/parsers/simple"
	simpletok "github.com/inspirer/textmapper/parsers/simple/token"
	"github.com/inspirer/textmapper/parsers/test"
	testtok "github.com/inspirer/textmapper/parsers/test/token"
	"github.com/inspirer/textmapper/parsers/tm"
	tmtok "github.com/inspirer/textmapper/parsers/tm/token"
)

// Lexer is a uniform view of one real lexer instance (not safe for concurrent use).
type Lexer struct {
	Name    string // tm, js, js-ts, js-tsx, json, test, simple
	Lang    *Lang
	Init    func(src string)
	Next    func() int
	Pos     func() (int, int)
	Line    func() int // nil: the lexer does not track lines (test.tm: tokenLine = false)
	Column  func() int // nil: no Column() (only tm has tokenColumn = true)
	EOI     int
	Invalid int
	TokName func(int) string
	// Space reports whether gap is in (space rule)* for the rules the lexer skips silently.
	Space func(gap string) bool
	// Code reports whether a token was produced by tm's hand-written skipAction (the rest of
	// a `{ ... }` block is consumed by Go code, not by the DFA). nil for the other lexers.
	Code func(tok int, text string) bool
}

// LexerConfig names one way of driving a shipped lexer.
type LexerConfig struct {
	Name string
	Lang string
	New  func() *Lexer
}

func asciiSpace(set string) func(string) bool {
	var m [256]bool
	for i := 0; i < len(set); i++ {
		m[set[i]] = true
	}
	return func(gap string) bool {
		for i := 0; i < len(gap); i++ {
			if !m[gap[i]] {
				return false
			}
		}
		return true
	}
}

// jsSpace: js.tm skips only the two WhiteSpace rules
//
//	WhiteSpace: /[\t\x0b\x0c\x20\xa0\ufeff\p{Zs}]/ (space)
//	WhiteSpace: /[\n\r\u2028\u2029]|\r\n/ (space)
//
// (code points, the lexer decodes UTF-8). MultiLineComment and SingleLineComment are declared
// (space) too, but they are %inject-ed into the parser, so the generated lexer RETURNS them
// (TokenStream.next collects them); they are tokens here and may not hide in a gap. In the
// jsxText state nothing is skipped; the recogniser is a superset there, which is the
// implementation-friendly direction. An invalid byte decodes to RuneError and is not space.
func jsSpace(gap string) bool {
	for i := 0; i < len(gap); {
		r, w := utf8.DecodeRuneInString(gap[i:])
		if r == utf8.RuneError && w <= 1 {
			return false
		}
		switch r {
		case '\t', '\x0b', '\x0c', ' ', 0xa0, 0xfeff, '\n', '\r', 0x2028, 0x2029:
		default:
			if !unicode.Is(unicode.Zs, r) {
				return false
			}
		}
		i += w
	}
	return true
}

func newJS(name string, d js.Dialect) func() *Lexer {
	return func() *Lexer {
		l := new(js.Lexer)
		return &Lexer{
			Name: name, Lang: LangByName("js"),
			// The js lexer selects its template/regexp/div/JSX states itself in the code that
			// js.tm appends to Next(); its tests and TokenStream only set the dialect after Init.
			Init:    func(src string) { l.Init(src); l.Dialect = d },
			Next:    func() int { return int(l.Next()) },
			Pos:     l.Pos,
			Line:    l.Line,
			EOI:     int(jstok.EOI),
			Invalid: int(jstok.INVALID_TOKEN),
			TokName: func(t int) string { return jstok.Type(t).String() },
			Space:   jsSpace,
		}
	}
}

// LexerConfigs lists the shipped lexers under check.
var LexerConfigs = []LexerConfig{
	{Name: "tm", Lang: "tm", New: func() *Lexer {
		l := new(tm.Lexer)
		return &Lexer{
			Name: "tm", Lang: LangByName("tm"),
			Init: l.Init, Next: func() int { return int(l.Next()) }, Pos: l.Pos,
			Line: l.Line, Column: l.Column,
			EOI: int(tmtok.EOI), Invalid: int(tmtok.INVALID_TOKEN),
			TokName: func(t int) string { return tmtok.Type(t).String() },
			// textmapper.tm: the only rule the lexer skips is
			//   whitespace: /[\n\r\t ]+/ (space)
			// `templates`, `comment` and `multilineComment` are (space) as well, but %inject-ed:
			// lexer.go returns them (only rule 5 sets space = true) and TokenStream.next turns
			// them into pending nodes.
			Space: asciiSpace("\n\r\t "),
			// `code: /\{/` is finished by skipAction; on EOI it becomes invalid_token. '{' never
			// starts another invalid token (it is '{' in afterGT and code elsewhere).
			Code: func(tok int, text string) bool {
				return tok == int(tmtok.CODE) || (tok == int(tmtok.INVALID_TOKEN) && strings.HasPrefix(text, "{"))
			},
		}
	}},
	{Name: "js", Lang: "js", New: newJS("js", js.Javascript)},
	{Name: "js-ts", Lang: "js", New: newJS("js-ts", js.Typescript)},
	{Name: "js-tsx", Lang: "js", New: newJS("js-tsx", js.TypescriptJsx)},
	{Name: "json", Lang: "json", New: func() *Lexer {
		l := new(json.Lexer)
		return &Lexer{
			Name: "json", Lang: LangByName("json"),
			Init: l.Init, Next: func() int { return int(l.Next()) }, Pos: l.Pos, Line: l.Line,
			EOI: int(jsontok.EOI), Invalid: int(jsontok.INVALID_TOKEN),
			TokName: func(t int) string { return jsontok.Type(t).String() },
			// json.tm: `space: /[\t\r\n ]+/ (space)`; MultiLineComment is (space) but injected,
			// hence returned by the lexer.
			Space: asciiSpace("\t\r\n "),
		}
	}},
	{Name: "test", Lang: "test", New: func() *Lexer {
		l := new(test.Lexer)
		return &Lexer{
			Name: "test", Lang: LangByName("test"),
			Init: l.Init, Next: func() int { return int(l.Next()) }, Pos: l.Pos,
			EOI: int(testtok.EOI), Invalid: int(testtok.INVALID_TOKEN),
			TokName: func(t int) string { return testtok.Type(t).String() },
			// test.tm: `WhiteSpace: /[ \t\r\n\x00]/ (space)`. SingleLineComment is injected
			// (returned). The nested block comment is assembled from several (space) rules of
			// the inMultiLine state, but its last piece resets l.tokenOffset to the start of the
			// comment and returns the whole thing as MultiLineComment (or invalid_token at eoi),
			// so none of its text may show up in a gap.
			Space: asciiSpace(" \t\r\n\x00"),
		}
	}},
	{Name: "simple", Lang: "simple", New: func() *Lexer {
		l := new(simple.Lexer)
		return &Lexer{
			Name: "simple", Lang: LangByName("simple"),
			Init: l.Init, Next: func() int { return int(l.Next()) }, Pos: l.Pos, Line: l.Line,
			EOI: int(simpletok.EOI), Invalid: int(simpletok.INVALID_TOKEN),
			TokName: func(t int) string { return simpletok.Type(t).String() },
			// simple.tm: `WhiteSpace: /[\n\r\x20\t]+/ (space)` is the only space rule.
			Space: asciiSpace("\n\r \t"),
		}
	}},
	// TODO(C12, generated lexers): lexers generated from the enumerated grammars of C11 are
	// checked by C11's harness (compile -> generate -> build); to run them through CheckLexer,
	// add a LexerConfig whose Space recogniser is built from the grammar's space rules.
}

// LexerConfigByName finds a configuration.
func LexerConfigByName(name string) *LexerConfig {
	for i := range LexerConfigs {
		if LexerConfigs[i].Name == name {
			return &LexerConfigs[i]
		}
	}
	return nil
}

// Finding is one oracle failure: Key is "<lexer>:<class>".
type Finding struct {
	Key  string
	What string
}

// LexStats describes one run (for non-vacuity counters).
type LexStats struct {
	Tokens   int  // tokens before EOI
	Invalid  int  // invalid tokens
	Gaps     int  // non-empty gaps (skipped text)
	MaxLine  int  // highest expected line of a token
	NonASCII bool // input has a byte >= 0x80
	Kinds    []int
}

// CheckLexer runs the C12 oracle for one input. It never panics itself; panics of the lexer
// propagate to the caller (use core.Guard).
func CheckLexer(lx *Lexer, src string, st *LexStats) []Finding {
	n := len(src)
	budget := 4*n + 8
	var fs []Finding
	add := func(class, format string, args ...any) {
		fs = append(fs, Finding{Key: lx.Name + ":" + class, What: fmt.Sprintf("%s lexer, input %s: ", lx.Name, Quote(src)) + fmt.Sprintf(format, args...)})
	}
	hasBOM := strings.HasPrefix(src, BOM)

	// Expected position of a byte offset: line = 1 + number of '\n' before it, column = 1 +
	// bytes since the last '\n' (or since offset 0). Offsets are visited in ascending order.
	posAt, posLine, posLineStart := 0, 1, 0
	lineCol := func(off int) (line, col, lineStart int) {
		if off < posAt {
			posAt, posLine, posLineStart = 0, 1, 0
		}
		for posAt < off {
			if src[posAt] == '\n' {
				posLine++
				posLineStart = posAt + 1
			}
			posAt++
		}
		return posLine, off - posLineStart + 1, posLineStart
	}

	type span struct{ s, e int }
	var code []span // tm: tokens finished by skipAction
	inCode := func(off int) bool {
		for _, c := range code {
			if off >= c.s && off < c.e {
				return true
			}
		}
		return false
	}
	checkPos := func(tokName string, s int) {
		wantLine, wantCol, lineStart := lineCol(s)
		if wantLine > st.MaxLine {
			st.MaxLine = wantLine
		}
		if lx.Line != nil {
			if got := lx.Line(); got != wantLine {
				class := "line"
				if lx.Code != nil && got < wantLine {
					// Known defect class: skipAction skips the byte after a backslash inside a
					// quoted string without looking at it; when that byte is a newline the line
					// counter misses it. Attribute the mismatch to that class only if the missing
					// lines can be explained by backslash-newline pairs inside code blocks.
					esc := 0
					for _, c := range code {
						if c.e <= s {
							esc += strings.Count(src[c.s:c.e], "\\\n")
						}
					}
					if wantLine-got <= esc {
						class = "line-escaped-newline-in-code-string"
					}
				}
				add(class, "token %s at offset %d: Line()=%d, want %d", tokName, s, got, wantLine)
			}
		}
		if lx.Column != nil {
			if got := lx.Column(); got != wantCol {
				class := "column"
				if lineStart > 0 {
					switch {
					case lx.Code != nil && inCode(lineStart-1):
						// the newline that starts this line was consumed by skipAction
						class = "column-after-newline-in-code"
					case got == wantCol+1:
						class = "column-after-newline"
					}
				}
				add(class, "token %s at offset %d (line %d): Column()=%d, want %d", tokName, s, wantLine, got, wantCol)
			}
		}
	}

	lx.Init(src)
	prevEnd := 0
	first := true
	for calls := 0; ; calls++ {
		if calls >= budget {
			add("no-eoi-within-budget", "no EOI after %d calls of Next() (last token ended at %d of %d)", calls, prevEnd, n)
			return fs
		}
		tok := lx.Next()
		s, e := lx.Pos()
		name := lx.TokName(tok)
		if s < 0 || e > n || s > e {
			add("pos-out-of-range", "token %s has range [%d,%d) outside [0,%d]", name, s, e, n)
			return fs
		}
		if tok != lx.EOI && s == e {
			add("empty-token", "token %s is empty at offset %d", name, s)
			return fs
		}
		if s < prevEnd {
			add("overlap", "token %s starts at %d before the end %d of the previous token", name, s, prevEnd)
			return fs
		}
		gap := src[prevEnd:s]
		if first && hasBOM {
			// All shipped lexers are generated with skipByteOrderMark (their doc comment: "If the
			// string starts with a BOM character, it gets skipped").
			if s < len(BOM) {
				add("bom-not-skipped", "first token %s starts at %d inside the byte order mark", name, s)
				return fs
			}
			gap = gap[len(BOM):]
		}
		first = false
		if gap != "" {
			st.Gaps++
			if !lx.Space(gap) {
				add("gap-not-space", "text %s between offset %d and token %s at %d is not matched by the skipped space rules", Quote(gap), prevEnd, name, s)
			}
		}
		checkPos(name, s)
		if tok == lx.EOI {
			if s != n || e != n {
				add("eoi-not-at-end", "EOI reported at [%d,%d), input length %d", s, e, n)
				return fs
			}
			for k := 0; k < 2; k++ {
				tok2 := lx.Next()
				s2, e2 := lx.Pos()
				if tok2 != lx.EOI || s2 != n || e2 != n {
					add("eoi-not-repeated", "call %d after EOI returned %s [%d,%d)", k+1, lx.TokName(tok2), s2, e2)
					return fs
				}
			}
			return fs
		}
		st.Tokens++
		if tok == lx.Invalid {
			st.Invalid++
		}
		st.Kinds = append(st.Kinds, tok)
		if lx.Code != nil && lx.Code(tok, src[s:e]) {
			code = append(code, span{s, e})
		}
		prevEnd = e
	}
}
