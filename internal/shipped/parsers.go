package shipped

import (
	"context"
	"fmt"

	"github.com/inspirer/textmapper/parsers/js"
	"github.com/inspirer/textmapper/parsers/json"
	"github.com/inspirer/textmapper/parsers/test"
	"github.com/inspirer/textmapper/parsers/tm"
)

// Event is one listener callback.
type Event struct {
	Type     int
	Off, End int
}

// Sink receives what a parser reports. Both callbacks may panic(TooManyEvents{}) to stop a
// parser that reports without bound.
type Sink struct {
	Node  func(t, off, end int)
	Error func(off, end int) // error handler invocations (recovering parsers)
}

// ParserConfig is one way of driving a shipped event parser, set up as the parser's own tests do.
type ParserConfig struct {
	Name     string // e.g. "tm:file", "js-ts:module"
	Lang     string
	TypeName func(t int) string
	// Prefix is put in front of every enumerated input (tm only: the same header / lexer / parser
	// preambles as in parsers/tm/parser_test.go, without them nearly every input is rejected
	// before the interesting rules are reached). Recorded cases contain the full text.
	Prefix string
	// Run parses src and returns the parser's error (nil = accepted).
	Run func(ctx context.Context, src string, s Sink) error
}

func runTM(nonterm, stop bool) func(ctx context.Context, src string, s Sink) error {
	return func(ctx context.Context, src string, s Sink) error {
		var st tm.TokenStream
		var p tm.Parser
		l := func(t tm.NodeType, off, end int) { s.Node(int(t), off, end) }
		eh := func(se tm.SyntaxError) bool { s.Error(se.Offset, se.Endoffset); return !stop }
		st.Init(src, l)
		p.Init(eh, l)
		if nonterm {
			return p.ParseNonterm(ctx, &st)
		}
		return p.ParseFile(ctx, &st)
	}
}

func runJS(d js.Dialect, entry string, stop bool) func(ctx context.Context, src string, s Sink) error {
	return func(ctx context.Context, src string, s Sink) error {
		var st js.TokenStream
		var p js.Parser
		l := func(t js.NodeType, off, end int) { s.Node(int(t), off, end) }
		eh := func(se js.SyntaxError) bool { s.Error(se.Offset, se.Endoffset); return !stop }
		st.Init(src, l)
		st.SetDialect(d)
		p.Init(eh, l)
		switch entry {
		case "type":
			return p.ParseTypeSnippet(ctx, &st)
		case "expr":
			return p.ParseExpressionSnippet(ctx, &st)
		}
		return p.ParseModule(ctx, &st)
	}
}

func tmName(t int) string   { return tm.NodeType(t).String() }
func jsName(t int) string   { return js.NodeType(t).String() }
func jsonName(t int) string { return json.NodeType(t).String() }
func testName(t int) string { return test.NodeType(t).String() }

// Preambles used by parsers/tm/parser_test.go.
const (
	TMLexerPre  = "language l(a); :: lexer\n"
	TMParserPre = "language l(a); :: lexer a = /abc/ :: parser "
)

// ParserConfigs lists the shipped event parsers under check (C20 a).
var ParserConfigs = []ParserConfig{
	{Name: "tm:file", Lang: "tm", TypeName: tmName, Run: runTM(false, false)},
	{Name: "tm:file-stop", Lang: "tm", TypeName: tmName, Run: runTM(false, true)}, // error handler refuses to recover
	{Name: "tm:nonterm", Lang: "tm", TypeName: tmName, Run: runTM(true, false)},
	{Name: "tm:file/lexer", Lang: "tm", TypeName: tmName, Run: runTM(false, false), Prefix: TMLexerPre},
	{Name: "tm:file/parser", Lang: "tm", TypeName: tmName, Run: runTM(false, false), Prefix: TMParserPre},
	{Name: "js:module", Lang: "js", TypeName: jsName, Run: runJS(js.Javascript, "module", false)},
	{Name: "js:module-stop", Lang: "js", TypeName: jsName, Run: runJS(js.Javascript, "module", true)},
	{Name: "js-ts:module", Lang: "js", TypeName: jsName, Run: runJS(js.Typescript, "module", false)},
	{Name: "js-tsx:module", Lang: "js", TypeName: jsName, Run: runJS(js.TypescriptJsx, "module", false)},
	{Name: "js:expr", Lang: "js", TypeName: jsName, Run: runJS(js.Javascript, "expr", false)},
	{Name: "js-ts:type", Lang: "js", TypeName: jsName, Run: runJS(js.Typescript, "type", false)},
	{Name: "json", Lang: "json", TypeName: jsonName, Run: func(ctx context.Context, src string, s Sink) error {
		l := new(json.Lexer)
		p := new(json.Parser)
		l.Init(src)
		p.Init(func(t json.NodeType, off, end int) { s.Node(int(t), off, end) })
		return p.Parse(l)
	}},
	{Name: "test:test", Lang: "test", TypeName: testName, Run: func(ctx context.Context, src string, s Sink) error {
		l := new(test.Lexer)
		p := new(test.Parser)
		l.Init(src)
		p.Init(func(t test.NodeType, flags test.NodeFlags, off, end int) { s.Node(int(t), off, end) })
		return p.ParseTest(ctx, l)
	}},
	{Name: "test:decl1", Lang: "test", TypeName: testName, Run: func(ctx context.Context, src string, s Sink) error {
		l := new(test.Lexer)
		p := new(test.Parser)
		l.Init(src)
		p.Init(func(t test.NodeType, flags test.NodeFlags, off, end int) { s.Node(int(t), off, end) })
		_, err := p.ParseDecl1(ctx, l)
		return err
	}},
}

// ParserConfigByName finds a configuration.
func ParserConfigByName(name string) *ParserConfig {
	for i := range ParserConfigs {
		if ParserConfigs[i].Name == name {
			return &ParserConfigs[i]
		}
	}
	return nil
}

// TooManyEvents is the panic value used to stop a parser that reports more than the budget.
type TooManyEvents struct{ N int }

// CheckEvents is the C20 (a) oracle: every node inside [0,n]; any two nodes disjoint or nested;
// a node that strictly contains another one is reported after it.
//
// Two ranges partially overlap when a.Off < b.Off < a.End < b.End (an empty range never does).
// "Strictly contains" is taken in the sense on which the statement is unambiguous: the inner
// range differs from the outer one and is either non-empty or lies strictly inside the outer range.
// An EMPTY node sitting exactly on the boundary of another node (js InsertedSemicolon at the end
// of the previous token, empty optional parts at the offset of the next token) is both "disjoint"
// and "nested" and is not ordered by the statement; we side with the implementation there.
func CheckEvents(name string, typeName func(int) string, n int, ev []Event) []Finding {
	var fs []Finding
	seen := map[string]bool{}
	add := func(key, what string) {
		if !seen[key] {
			seen[key] = true
			fs = append(fs, Finding{Key: key, What: what})
		}
	}
	d := func(e Event) string { return fmt.Sprintf("%s[%d,%d)", typeName(e.Type), e.Off, e.End) }
	for i, e := range ev {
		if e.Off < 0 || e.End > n || e.Off > e.End {
			add(name+":out-of-input:"+typeName(e.Type), fmt.Sprintf("event #%d %s is outside [0,%d]", i, d(e), n))
		}
	}
	for j := 1; j < len(ev); j++ {
		b := ev[j]
		for i := 0; i < j; i++ {
			a := ev[i] // reported before b
			if (a.Off < b.Off && b.Off < a.End && a.End < b.End) || (b.Off < a.Off && a.Off < b.End && b.End < a.End) {
				add(name+":partial-overlap:"+typeName(b.Type), fmt.Sprintf("event #%d %s partially overlaps the earlier event #%d %s", j, d(b), i, d(a)))
				continue
			}
			// a (earlier) strictly contains b (later)?
			if a.Off <= b.Off && b.End <= a.End && (a.Off != b.Off || a.End != b.End) {
				if b.Off < b.End || (a.Off < b.Off && b.Off < a.End) {
					add(name+":container-before-content:"+typeName(b.Type), fmt.Sprintf("event #%d %s is strictly contained in event #%d %s that was reported earlier", j, d(b), i, d(a)))
				}
			}
		}
	}
	return fs
}
