// Package shipped holds what C12 (lexers) and C20 (event parsers) share: the bounded input
// spaces for the shipped js/tm/json/test/simple languages, thin adapters around the real
// lexers/parsers and the oracles.
package shipped

import (
	"fmt"
	"strings"
)

// BOM is the UTF-8 byte order mark. It is enumerated as ONE unit and only at position 0.
const BOM = "\xef\xbb\xbf"

// Lang is the bounded input space of one shipped language.
type Lang struct {
	Name     string
	Alphabet []byte   // 12-14 "interesting" bytes
	Seeds    []string // malformed / tricky texts that get 1- and 2-edit mutations
	// ParserSeeds are additional seeds for the event parsers (C20): small, mostly well-formed
	// texts with comments in front of, inside and behind constructs whose rules end in optional
	// (possibly empty) parts, so that pending-token flushing and range trimming are exercised.
	ParserSeeds []string
}

// AllSeeds returns Seeds followed by ParserSeeds.
func (l *Lang) AllSeeds() []string {
	return append(append([]string{}, l.Seeds...), l.ParserSeeds...)
}

// Langs lists the five shipped languages. The alphabets contain the bytes that drive the
// hand-written parts of the lexers (quotes, slash, star, braces, backslash, LF, CR), one letter, one
// digit, language specific state switches (':' for tm regexp/code states, '`' and '$' for js
// templates, NUL which is white space in test.tm) and two bytes that are invalid UTF-8 on their
// own (0xc3 = truncated 2-byte sequence, 0xff = never valid).
var Langs = []*Lang{
	{
		Name:     "tm",
		Alphabet: []byte{'\'', '"', '/', '*', '{', '}', '\\', '\n', '\r', 'a', '1', ':', 0xc3, 0xff},
		Seeds: []string{
			"a: b\n/* c\n* d",                            // unterminated multi-line comment
			"x = \"ab\\\"c\ny 'q\\' z",                   // unterminated string / quoted id
			"t: /a[/]\\/b/\n c = /x",                     // regexp with class + unterminated regexp
			"a: b { x := \"\\\n}\" '{' }\nc",             // code block: nested quotes, escaped NL in a string
			BOM + "language a(go);\n:: lexer\n",          // BOM + text
			"a:\n  b c\n  // d\n| e ;\n<i> f: /g/ {h}\n", // multi-line text
			"s: { /* } */\n// }\n{}\n} t {\n u",          // code block with comments, then unterminated code
			"p -> q/r ;\n\n%%\n${t}\nv",                  // templates section swallows the rest
		},
		ParserSeeds: []string{
			"language l(go); /*c*/", // header only: trailing empty lists, comment before eoi
			"language l(go);\n:: lexer\nk: /b/ // c\n:: parser\nx: k /*d*/ ;\ny: ;\n",
			"language l(go); :: lexer\nk: /b/\n:: parser\nz: /*e*/ | k /*f*/ | -> Q ; # g",
			"language l(go); :: lexer k: 'b' :: parser %input z; z {T}: (k /*h*/)+ ;",
		},
	},
	{
		Name:     "js",
		Alphabet: []byte{'\'', '/', '*', '{', '}', '\\', '\n', '\r', 'a', '1', '`', '$', 0xc3, 0xff},
		Seeds: []string{
			"a = 1 /* b\n c",                         // unterminated comment
			"s = 'a\\'b\\\nc' + \"d",                 // string with line continuation + unterminated string
			"`a${b+`c${d}`}e\n` f `g${ {h:1} }\n$`{", // nested templates, then unterminated one
			"a = /[/]\\//g / 2\n/b/ /c",              // regexp vs division, unterminated regexp
			BOM + "a\n++\nb /1/ c",                   // BOM + text, ++ on a new line
			"if (a)\n  b = 1\nelse { c-- }\n// d\n",  // multi-line text
			"x = <a b='c'>t {d} </a>\n y",            // JSX states
			"a?.1:b\n?.c .5 0x 1_ \\u",               // '?.' digit rewind rule, broken numbers/escapes
		},
		ParserSeeds: []string{
			"var v /*c*/ ; let w /*d*/\nu // e\n",               // optional initializer, ASI after a comment
			"f(a, /*c*/) ;{ /*d*/ } function g(/*e*/) /*f*/ {}", // empty lists around comments
			"x = `a${/*c*/b}c` /*d*/",                           // comments inside a template substitution
			"if (a) /*c*/ b; else /*d*/ ;/*e*/ for(;;/*f*/) ; class K /*g*/ {}",
		},
	},
	{
		Name:     "json",
		Alphabet: []byte{'"', '/', '*', '{', '}', '\\', '\n', '\r', 'a', '1', '[', ']', 0xc3, 0xff},
		Seeds: []string{
			"[1, 3 /* c\n 2",                    // unterminated comment
			"{\"a\\\"b\n\": \"c",                // string with escape + LF, unterminated string
			BOM + "{\"a\": [1, -2.5e+3]}\n",     // BOM + text
			"[\n  true,\n  null /* x */\n]\n",   // multi-line text
			"/**/ {\"\\u12\": false}\n/*/",      // broken escape, '/*/' is not a comment
			"[1.e, 01, -, tru]\n\"\\x\" \n A B", // broken numbers, keywords, bad escape
		},
		ParserSeeds: []string{
			"{\"a\": [1, /*c*/ 2], /*d*/ \"b\": {}} /*e*/",
			"/*c*/ [/*d*/] ",
			"[{/*c*/}, {\"k\" /*d*/ : /*e*/ A}, B]",
		},
	},
	{
		Name:     "test",
		Alphabet: []byte{'"', '/', '*', '{', '}', '\\', '\n', '\r', 'a', '1', '-', 0x00, 0xc3, 0xff},
		Seeds: []string{
			"decl1 /* a /* b */ c\n",                // nested, unterminated block comment
			"test { /* x /* y */ \n */ } // z\n",    // nested, terminated block comment + line comment
			BOM + "decl2: a.b\n  12\n",              // BOM + text
			"%q\n% q\n %q 7\n9",                     // 'multiline' token and lastInt at eoi
			"Zab\\u12 Zfoo \\ \"'\n test-->",        // invalid_token rules and backtracking token
			"eval(1.a+b)\n{- - x_ }\x00 ... -> f_a", // multi-line text
		},
		ParserSeeds: []string{
			"decl1(a.b) /*c*/ decl2 // d\n",
			"{ -- decl2 /*c*/ } test ( /*d*/ ) eval(1) /*e*/ decl2: /*f*/",
			"test 7 /*c*/ 9 [ /*d*/ ] if (/*e*/) decl2 else /*f*/ decl2 /*g*/",
		},
	},
	{
		Name:     "simple",
		Alphabet: []byte{'\\', '\n', '\r', ' ', 'a', 'b', 'c', 's', '1', '_', '\t', 0xc3, 0xa9, 0xff},
		Seeds: []string{
			"simple b\n  \\abc c\n",           // multi-line text
			BOM + "c c c\r\n\\x1 a",           // BOM + text
			"a\n\n\\_\xc3\xa9z simple sim\tb", // non-ASCII identifier, keyword prefix
			"b b\\ \\1 \n simples\n\\",        // broken identifiers
		},
	},
}

// LangByName returns the language with the given name.
func LangByName(name string) *Lang {
	for _, l := range Langs {
		if l.Name == name {
			return l
		}
	}
	return nil
}

func init() {
	// The distinct-input counts reported in the evidence are sums over groups (short strings,
	// mutations of seed 0, of seed 1, ...). That is only right when the groups are disjoint:
	// every seed is longer than any short string even after two deletions, and two different
	// seeds are more than four edits apart.
	for _, l := range Langs {
		if len(l.Alphabet) < 12 || len(l.Alphabet) > 14 {
			panic(fmt.Sprintf("%s: alphabet size %d", l.Name, len(l.Alphabet)))
		}
		all := l.AllSeeds()
		for i, a := range all {
			if len(a)-2 <= MaxShortLen+len(BOM) {
				panic(fmt.Sprintf("%s: seed %d too short", l.Name, i))
			}
			for j := i + 1; j < len(all); j++ {
				if d := editDistance(a, all[j]); d <= 4 {
					panic(fmt.Sprintf("%s: seeds %d and %d are only %d edits apart", l.Name, i, j, d))
				}
			}
		}
	}
}

func editDistance(a, b string) int {
	prev := make([]int, len(b)+1)
	cur := make([]int, len(b)+1)
	for j := range prev {
		prev[j] = j
	}
	for i := 1; i <= len(a); i++ {
		cur[0] = i
		for j := 1; j <= len(b); j++ {
			c := prev[j-1]
			if a[i-1] != b[j-1] {
				c++
			}
			if prev[j]+1 < c {
				c = prev[j] + 1
			}
			if cur[j-1]+1 < c {
				c = cur[j-1] + 1
			}
			cur[j] = c
		}
		prev, cur = cur, prev
	}
	return prev[len(b)]
}

// MaxShortLen is the largest short-string length of any tier.
const MaxShortLen = 6

// Group is one deterministic, duplicate-free list of inputs.
type Group struct {
	Name   string
	Inputs []string
}

// ShortCount returns the number of short strings of length <= maxLen (with and without BOM).
func (l *Lang) ShortCount(maxLen int) int {
	n, p := 0, 1
	for k := 0; k <= maxLen; k++ {
		n += p
		p *= len(l.Alphabet)
	}
	return 2 * n
}

// Short returns the i-th short string: all strings of length 0, 1, ... maxLen over the alphabet
// in lexicographic alphabet order, each first without and then with a leading BOM.
func (l *Lang) Short(i int) string {
	bom := i&1 == 1
	i >>= 1
	k := len(l.Alphabet)
	length, block := 0, 1
	for i >= block {
		i -= block
		block *= k
		length++
	}
	buf := make([]byte, length)
	for p := length - 1; p >= 0; p-- {
		buf[p] = l.Alphabet[i%k]
		i /= k
	}
	if bom {
		return BOM + string(buf)
	}
	return string(buf)
}

// edits1 appends every 1-edit mutation of s: delete byte i, duplicate byte i, replace byte i by
// each alphabet byte (the identity replacement included once per position is harmless: dedupe).
func (l *Lang) edits1(s string, emit func(string)) {
	b := []byte(s)
	for i := range b {
		emit(string(b[:i]) + string(b[i+1:]))
	}
	for i := range b {
		emit(string(b[:i+1]) + string(b[i:]))
	}
	for i := range b {
		old := b[i]
		for _, a := range l.Alphabet {
			if a == old {
				continue
			}
			b[i] = a
			emit(string(b))
		}
		b[i] = old
	}
}

// SeedGroup returns the seed itself plus all its 1-edit (edits == 1) or 1- and 2-edit
// (edits == 2) mutations, without duplicates, in generation order (seed, 1-edit, 2-edit).
func (l *Lang) SeedGroup(seed int, edits int) Group {
	s := l.AllSeeds()[seed]
	seen := map[string]struct{}{s: {}}
	out := []string{s}
	add := func(m string) {
		if _, ok := seen[m]; !ok {
			seen[m] = struct{}{}
			out = append(out, m)
		}
	}
	l.edits1(s, add)
	if edits >= 2 {
		first := append([]string{}, out[1:]...)
		for _, m := range first {
			l.edits1(m, add)
		}
	}
	return Group{Name: fmt.Sprintf("%s/seed%d/%d-edit", l.Name, seed, edits), Inputs: out}
}

// Quote renders an input for messages.
func Quote(s string) string {
	q := fmt.Sprintf("%q", s)
	return strings.ReplaceAll(q, `\ufeff`, `\xef\xbb\xbf`)
}
