package rxparse

// Matching is done on words over "symbol classes": the caller partitions the units into classes
// on which every leaf set is constant, and supplies has[leafID][class].

// Ends returns the bit set of positions j such that word[i:j] is matched by n.
func Ends(n *Node, word []int, i int, has [][]bool) uint32 {
	switch n.Kind {
	case Empty:
		return 1 << uint(i)
	case Leaf:
		if i < len(word) && has[n.ID][word[i]] {
			return 1 << uint(i+1)
		}
		return 0
	case Cat:
		cur := uint32(1) << uint(i)
		for _, s := range n.Sub {
			var next uint32
			for j := 0; j <= len(word); j++ {
				if cur&(1<<uint(j)) != 0 {
					next |= Ends(s, word, j, has)
				}
			}
			cur = next
			if cur == 0 {
				return 0
			}
		}
		return cur
	case Alt:
		var out uint32
		for _, s := range n.Sub {
			out |= Ends(s, word, i, has)
		}
		return out
	case Rep:
		var out uint32
		cur := uint32(1) << uint(i)
		if n.Min == 0 {
			out = cur
		}
		if len(word) > 30 {
			panic("rxparse.Ends: words longer than 30 units are not supported")
		}
		var seen uint64             // bitmap over position sets < 64 (always the case for len(word) <= 5)
		var seenBig map[uint32]bool // longer words
		for k := 1; n.Max < 0 || k <= n.Max; k++ {
			var next uint32
			for j := 0; j <= len(word); j++ {
				if cur&(1<<uint(j)) != 0 {
					next |= Ends(n.Sub[0], word, j, has)
				}
			}
			cur = next
			if cur == 0 {
				break
			}
			if k >= n.Min {
				// The sequence of position sets is a function of its predecessor, so it is
				// periodic once a set recurs; past Min everything after the first occurrence has
				// been added already. Before Min we must keep counting (bounded by Min itself).
				if cur < 64 {
					if seen&(1<<cur) != 0 {
						break
					}
					seen |= 1 << cur
				} else {
					if seenBig[cur] {
						break
					}
					if seenBig == nil {
						seenBig = map[uint32]bool{}
					}
					seenBig[cur] = true
				}
				out |= cur
			}
		}
		return out
	}
	return 0
}

// Matches reports whether the whole word is in the language of n.
func Matches(n *Node, word []int, has [][]bool) bool {
	return Ends(n, word, 0, has)&(1<<uint(len(word))) != 0
}
