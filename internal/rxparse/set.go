// Package rxparse is the reference model of C10: an independent recursive-descent parser for the
// documented textmapper regular expression syntax, a denotation into sets of code points (or bytes),
// and a small position-set matcher. It shares no code with /repo/lex and never looks at its data
// structures; Unicode classes come straight from Go's unicode tables and case folding from
// unicode.SimpleFold orbits.
//
// Where the syntax is documented (all that exists in the repository):
//   - lex/regexp.go type comment: "very close to POSIX + UnicodeGroups" (= Go regexp/syntax POSIX
//     flags + \p{..}) "with some lexer-specific extensions" ({name} references, /{hex}{4}/);
//   - vscode-ext/syntaxes/textmapper.tmLanguage.json "regexp": quantifiers ? + * {n} {n,} {n,m},
//     {name}, groups, [..] [^..], \w\W\s\S\d\D \t\r\n\v\f, \OOO = [0-7]{3}, \xHH = x[0-9A-Fa-f]{2},
//     \uHHHH = u[0-9A-Fa-f]{4};
//   - the property statement of C10 (\xHH \uHHHH \UHHHHHHHH \x{...}, octal, \d \w \s, \p{...},
//     negated and subtracted classes, (?i) flags, byte mode; malformed escapes, inverted ranges,
//     unbalanced parentheses, malformed quantifiers are rejected);
//   - lex/regexp_test.go as specification by example ([]] , [--[a-z]], (?i-), '+' as a literal
//     when there is nothing to repeat, \Q..\E, {#bytes}ÿ = UTF-8 bytes, ...).
//
// Everything else is treated as UNSPECIFIED: the parser still produces the reading the
// implementation is known to take (so that replay shows something sensible) but flags the pattern,
// and C10 never alarms on flagged patterns.
package rxparse

import (
	"sort"
	"unicode"
)

// MaxRune is the largest code point.
const MaxRune = 0x10FFFF

// Range is a closed interval of units (code points, or byte values in byte mode).
type Range struct{ Lo, Hi rune }

// Set is a sorted list of disjoint, non-adjacent closed ranges.
type Set []Range

// Norm builds a Set from arbitrary (overlapping, unordered) ranges.
func Norm(rs []Range) Set {
	if len(rs) == 0 {
		return nil
	}
	tmp := append([]Range(nil), rs...)
	sort.Slice(tmp, func(i, j int) bool {
		if tmp[i].Lo != tmp[j].Lo {
			return tmp[i].Lo < tmp[j].Lo
		}
		return tmp[i].Hi < tmp[j].Hi
	})
	out := Set{tmp[0]}
	for _, r := range tmp[1:] {
		last := &out[len(out)-1]
		if r.Lo <= last.Hi+1 {
			if r.Hi > last.Hi {
				last.Hi = r.Hi
			}
			continue
		}
		out = append(out, r)
	}
	return out
}

// One is the singleton set.
func One(r rune) Set { return Set{{r, r}} }

// Contains reports membership.
func (s Set) Contains(r rune) bool {
	i := sort.Search(len(s), func(i int) bool { return s[i].Hi >= r })
	return i < len(s) && s[i].Lo <= r
}

// Union of two sets.
func (s Set) Union(o Set) Set {
	if len(o) == 0 {
		return s
	}
	if len(s) == 0 {
		return o
	}
	all := make([]Range, 0, len(s)+len(o))
	all = append(all, s...)
	all = append(all, o...)
	return Norm(all)
}

// Complement within [0, max].
func (s Set) Complement(max rune) Set {
	var out Set
	next := rune(0)
	for _, r := range s {
		if r.Lo > max {
			break
		}
		if r.Lo > next {
			out = append(out, Range{next, r.Lo - 1})
		}
		if r.Hi+1 > next {
			next = r.Hi + 1
		}
	}
	if next <= max {
		out = append(out, Range{next, max})
	}
	return out
}

// Intersect of two sets.
func (s Set) Intersect(o Set) Set {
	var out Set
	i, j := 0, 0
	for i < len(s) && j < len(o) {
		lo, hi := s[i].Lo, s[i].Hi
		if o[j].Lo > lo {
			lo = o[j].Lo
		}
		if o[j].Hi < hi {
			hi = o[j].Hi
		}
		if lo <= hi {
			out = append(out, Range{lo, hi})
		}
		if s[i].Hi < o[j].Hi {
			i++
		} else {
			j++
		}
	}
	return out
}

// Minus removes every element of o (within the universe [0,max]).
func (s Set) Minus(o Set, max rune) Set { return s.Intersect(o.Complement(max)) }

// Equal compares two normalised sets.
func (s Set) Equal(o Set) bool {
	if len(s) != len(o) {
		return false
	}
	for i := range s {
		if s[i] != o[i] {
			return false
		}
	}
	return true
}

// FirstDiff returns the smallest unit that is in exactly one of the two sets.
func (s Set) FirstDiff(o Set, max rune) (rune, bool) {
	d := s.Minus(o, max).Union(o.Minus(s, max))
	if len(d) == 0 {
		return 0, false
	}
	return d[0].Lo, true
}

// Size is the number of elements.
func (s Set) Size() int {
	n := 0
	for _, r := range s {
		n += int(r.Hi-r.Lo) + 1
	}
	return n
}

// foldable lists every code point whose SimpleFold orbit has more than one element.
var foldable []rune

func init() {
	for r := rune(0); r <= MaxRune; r++ {
		if unicode.SimpleFold(r) != r {
			foldable = append(foldable, r)
		}
	}
}

// Fold closes the set under unicode.SimpleFold orbits. With asciiOnly (byte mode) only orbit
// members below 0x80 are added ("no case folding for non-ASCII in bytes mode", regexp_test.go).
func (s Set) Fold(asciiOnly bool) Set {
	var add []Range
	for _, r := range s {
		// Only code points with a non-trivial orbit matter; walk those inside the range.
		i := sort.Search(len(foldable), func(i int) bool { return foldable[i] >= r.Lo })
		for ; i < len(foldable) && foldable[i] <= r.Hi; i++ {
			c := foldable[i]
			for f := unicode.SimpleFold(c); f != c; f = unicode.SimpleFold(f) {
				if asciiOnly && f >= 0x80 {
					continue
				}
				if f < r.Lo || f > r.Hi {
					add = append(add, Range{f, f})
				}
			}
		}
	}
	if len(add) == 0 {
		return s
	}
	return s.Union(Norm(add))
}

// FromTable converts a unicode.RangeTable.
func FromTable(t *unicode.RangeTable) Set {
	if t == nil {
		return nil
	}
	var rs []Range
	for _, r := range t.R16 {
		if r.Stride == 1 {
			rs = append(rs, Range{rune(r.Lo), rune(r.Hi)})
			continue
		}
		for c := rune(r.Lo); c <= rune(r.Hi); c += rune(r.Stride) {
			rs = append(rs, Range{c, c})
		}
	}
	for _, r := range t.R32 {
		if r.Stride == 1 {
			rs = append(rs, Range{rune(r.Lo), rune(r.Hi)})
			continue
		}
		for c := rune(r.Lo); c <= rune(r.Hi); c += rune(r.Stride) {
			rs = append(rs, Range{c, c})
		}
	}
	return Norm(rs)
}

// NamedKind classifies a \p{..} name.
type NamedKind string

const (
	KindAny      NamedKind = "any"
	KindAscii    NamedKind = "ascii"
	KindCategory NamedKind = "category"
	KindScript   NamedKind = "script"
	KindProperty NamedKind = "property"
)

// Named returns the set of a \p{Name} class in rune mode.
func Named(name string) (Set, NamedKind, bool) {
	switch name {
	case "Any":
		return Set{{0, MaxRune}}, KindAny, true
	case "Ascii":
		return Set{{0, 0x7f}}, KindAscii, true
	}
	if t := unicode.Categories[name]; t != nil {
		return FromTable(t), KindCategory, true
	}
	if t := unicode.Scripts[name]; t != nil {
		return FromTable(t), KindScript, true
	}
	if t := unicode.Properties[name]; t != nil {
		return FromTable(t), KindProperty, true
	}
	return nil, "", false
}
