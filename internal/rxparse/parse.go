package rxparse

import (
	"fmt"
	"strconv"
	"strings"
	"unicode/utf8"
)

// Opts are the two configuration bits of a pattern.
type Opts struct {
	Fold  bool // case-insensitive by default ((?i) / (?-i) switch it inside the pattern)
	Bytes bool // the unit of matching is a byte, not a code point
}

func (o Opts) max() rune {
	if o.Bytes {
		return 0xff
	}
	return MaxRune
}

// Quirks makes the reference emulate ONE known deviation of the implementation. It is used only
// to give a disagreement a precise, stable key (does this single deviation explain it?), never to
// decide whether there is a disagreement.
type Quirks struct {
	ScriptAlwaysFolded    bool // \p{<Script>} is closed under case folding even without (?i)
	SingleRuneClassIsChar bool // inside brackets a class escape with exactly one member acts as a character
}

// Kind of an AST node.
type Kind uint8

const (
	Empty Kind = iota // matches the empty string
	Leaf              // matches one unit out of Set
	Cat
	Alt
	Rep
)

// Node is the reference AST.
type Node struct {
	Kind     Kind
	Set      Set // Leaf
	Sub      []*Node
	Min, Max int // Rep; Max == -1: unbounded
	ID       int // Leaf: index in Result.Leaves
}

// Atom is a smallest self-contained piece of the pattern text (character, escape, bracket
// expression, dot). Used to attribute a language difference to one construct.
type Atom struct {
	Start, End int
	Fold       bool   // fold state in effect
	Tag        string // construct class, e.g. "escape-octal", "bracket-negated"
	Node       *Node
}

// Result of the reference parser.
type Result struct {
	OK     bool
	Node   *Node
	Leaves []*Node
	Atoms  []Atom
	// Reject information.
	Reason  string // stable identifier of the rule that rejects
	Detail  string
	Pos     int
	BadChar rune // offending character for Reason == "bad-hex-digit"
	// Unspecified lists the documentation-silent corners this pattern touches.
	Unspecified []string
	// Tags lists the constructs used (coverage accounting).
	Tags map[string]bool
	// MaxRepeat is the largest repeat bound used.
	MaxRepeat int
}

type reject struct {
	reason, detail string
	pos            int
	bad            rune
}

type parser struct {
	src  string
	pos  int
	o    Opts
	q    Quirks
	fold bool
	res  *Result
}

const eof = rune(-1)

// ExtSet is the convention C10's resolver uses for {name} references: the named pattern is the
// single first character of the name.
func ExtSet(name string) Set { return One(rune(name[0])) }

// Parse is the reference parser.
func Parse(src string, o Opts, q Quirks) (res *Result) {
	res = &Result{Tags: map[string]bool{}}
	p := &parser{src: src, o: o, q: q, fold: o.Fold, res: res}
	defer func() {
		if r := recover(); r != nil {
			rj, ok := r.(reject)
			if !ok {
				panic(r)
			}
			res.OK = false
			res.Node = nil
			res.Reason, res.Detail, res.Pos, res.BadChar = rj.reason, rj.detail, rj.pos, rj.bad
		}
	}()
	if !utf8.ValidString(src) {
		p.fail("invalid-utf8", "pattern is not valid UTF-8")
	}
	n := p.alt(0)
	if p.pos != len(p.src) {
		p.fail("internal", "trailing input") // cannot happen: alt(0) consumes everything or rejects
	}
	res.OK = true
	res.Node = n
	number(n, res)
	return res
}

func number(n *Node, res *Result) {
	if n.Kind == Leaf {
		n.ID = len(res.Leaves)
		res.Leaves = append(res.Leaves, n)
	}
	for _, s := range n.Sub {
		number(s, res)
	}
}

func (p *parser) fail(reason, detail string) {
	panic(reject{reason: reason, detail: detail, pos: p.pos})
}

func (p *parser) unspec(what string) {
	for _, u := range p.res.Unspecified {
		if u == what {
			return
		}
	}
	p.res.Unspecified = append(p.res.Unspecified, what)
}

func (p *parser) tag(t string) { p.res.Tags[t] = true }

func (p *parser) peekW() (rune, int) {
	if p.pos >= len(p.src) {
		return eof, 0
	}
	return utf8.DecodeRuneInString(p.src[p.pos:])
}

func (p *parser) peek() rune { r, _ := p.peekW(); return r }

// peek2 is the character after the next one.
func (p *parser) peek2() rune {
	_, w := p.peekW()
	if p.pos+w >= len(p.src) {
		return eof
	}
	r, _ := utf8.DecodeRuneInString(p.src[p.pos+w:])
	return r
}

func (p *parser) advance() rune {
	r, w := p.peekW()
	p.pos += w
	return r
}

func isDigit(r rune) bool { return r >= '0' && r <= '9' }
func isAlnum(r rune) bool {
	return r >= 'a' && r <= 'z' || r >= 'A' && r <= 'Z' || r >= '0' && r <= '9'
}
func isIdent(r rune) bool { return isAlnum(r) || r == '_' }

// alt := concat ('|' concat)*
func (p *parser) alt(depth int) *Node {
	var branches []*Node
	for {
		branches = append(branches, p.concat(depth))
		if p.peek() == '|' {
			p.pos++
			p.tag("alternation")
			continue
		}
		break
	}
	if len(branches) == 1 {
		return branches[0]
	}
	return &Node{Kind: Alt, Sub: branches}
}

func (p *parser) addAtom(start int, tag string, n *Node) {
	p.tag(tag)
	p.res.Atoms = append(p.res.Atoms, Atom{Start: start, End: p.pos, Fold: p.fold, Tag: tag, Node: n})
}

// concat := piece*      piece := atom quantifier*
func (p *parser) concat(depth int) *Node {
	var items []*Node
	afterFlag := false // the previous construct was a bare (?flags) group
	for {
		c, w := p.peekW()
		if c == eof || c == '|' {
			break
		}
		if c == ')' {
			if depth == 0 {
				p.fail("unbalanced-close-paren", "')' without '('")
			}
			break
		}
		start := p.pos
		switch c {
		case '(':
			p.pos++
			saved := p.fold
			if p.peek() == '?' {
				p.pos++
				flags := ""
				for {
					f := p.peek()
					if f == ':' || f == ')' {
						break
					}
					if f != 'i' && f != '-' {
						p.fail("bad-flags", "only (?i) (?-i) (?i:..) (?-i:..) (?:..) exist")
					}
					flags += string(f)
					p.pos++
				}
				term := p.advance()
				p.tag("flags")
				setFold, neg := strings.Contains(flags, "i"), strings.Contains(flags, "-")
				// Documented spellings: (?i) (?-i) (?i-) [regexp_test.go], same with ':' and (?:.
				// Anything else that the scanner above lets through ((?) (?-) (?ii) (?--i) ..) is
				// not documented anywhere; Go's regexp/syntax rejects those. Side with lex: flags are
				// a bag of characters, 'i' present => fold = no '-' present.
				doc := flags == "i" || flags == "-i" || flags == "i-" || (term == ':' && flags == "")
				if !doc {
					p.unspec("perl-flags-spelling")
				}
				if term == ')' {
					if setFold {
						p.fold = !neg // until the end of the enclosing group
					}
					afterFlag = true
					continue
				}
				if setFold {
					p.fold = !neg
				}
			}
			p.tag("group")
			inner := p.alt(depth + 1)
			if p.peek() != ')' {
				p.fail("unbalanced-open-paren", "missing ')'")
			}
			p.pos++
			p.fold = saved
			items = append(items, inner)

		case '*', '+', '?':
			if len(items) == 0 {
				// Nothing to repeat: the character stands for itself ("+" -> str{+}, "|+",
				// "(?i)+[^]]" in regexp_test.go).
				p.pos++
				n := p.literal(c)
				p.addAtom(start, "literal-operator-char", n)
				items = append(items, n)
				break
			}
			if afterFlag {
				// "a(?i)*": lex applies the star to 'a', regexp/syntax reports a missing argument.
				p.unspec("quantifier-after-flag-group")
			}
			p.pos++
			p.tag("quantifier-" + string(c))
			rep := &Node{Kind: Rep, Sub: []*Node{items[len(items)-1]}, Max: -1}
			switch c {
			case '+':
				rep.Min = 1
			case '?':
				rep.Max = 1
			}
			items[len(items)-1] = rep

		case '{':
			if isDigit(p.peek2()) {
				if len(items) == 0 {
					p.fail("quantifier-without-operand", "{n,m} with nothing to repeat")
				}
				if afterFlag {
					p.unspec("quantifier-after-flag-group")
				}
				p.pos++
				min, max := p.quantifier()
				p.tag("quantifier-brace")
				if min > p.res.MaxRepeat {
					p.res.MaxRepeat = min
				}
				if max > p.res.MaxRepeat {
					p.res.MaxRepeat = max
				}
				items[len(items)-1] = &Node{Kind: Rep, Sub: []*Node{items[len(items)-1]}, Min: min, Max: max}
				break
			}
			p.pos++
			ns := p.pos
			for isIdent(p.peek()) {
				p.pos++
			}
			if p.pos == ns || p.peek() != '}' {
				p.fail("bad-reference", "'{' starts neither {n,m} nor {name}")
			}
			name := p.src[ns:p.pos]
			p.pos++
			if name == "eoi" {
				p.unspec("eoi-reference") // end-of-input marker: outside C10
			}
			n := &Node{Kind: Leaf, Set: ExtSet(name)}
			p.addAtom(start, "reference", n)
			items = append(items, n)

		case '[':
			set, tag := p.class(true)
			n := &Node{Kind: Leaf, Set: set}
			p.addAtom(start, tag, n)
			items = append(items, n)

		case '\\':
			if p.peek2() == 'Q' {
				p.pos += 2
				end := strings.Index(p.src[p.pos:], `\E`)
				var lit string
				if end < 0 {
					lit = p.src[p.pos:]
					p.pos = len(p.src)
				} else {
					lit = p.src[p.pos : p.pos+end]
					p.pos += end + 2
				}
				// quoted text is literal text: under (?i) / caseInsensitive it folds like any other
				// literal ("generate a case-insensitive scanner", grammar.Options.CaseInsensitive)
				var subs []*Node
				for _, r := range lit {
					subs = append(subs, p.unit(r, p.fold))
				}
				n := &Node{Kind: Cat, Sub: subs}
				p.addAtom(start, "quote", n)
				items = append(items, n)
				break
			}
			e := p.escape(false)
			var n *Node
			if e.isSet {
				n = &Node{Kind: Leaf, Set: p.standaloneClass(e)}
			} else {
				if p.o.Bytes && e.r >= 0x80 && e.r <= 0xff && e.byteForm {
					// {#bytes}ÿ is documented (by test) to be the UTF-8 bytes of U+00FF; for
					// \xff and \377, which read like a raw byte, nothing is said. lex treats them
					// like ÿ.
					p.unspec("byte-mode-high-escape")
				}
				if p.o.Bytes && e.r >= 0xd800 && e.r <= 0xdfff {
					p.unspec("byte-mode-surrogate-escape")
				}
				n = p.literal(e.r)
			}
			p.addAtom(start, e.tag, n)
			items = append(items, n)

		case '.':
			p.pos++
			n := &Node{Kind: Leaf, Set: Set{{0, '\n' - 1}, {'\n' + 1, p.o.max()}}}
			p.addAtom(start, "dot", n)
			items = append(items, n)

		default:
			p.pos += w
			n := p.literal(c)
			p.addAtom(start, "literal", n)
			items = append(items, n)
		}
		afterFlag = false
	}
	switch len(items) {
	case 0:
		return &Node{Kind: Empty}
	case 1:
		return items[0]
	}
	return &Node{Kind: Cat, Sub: items}
}

// literal is one character outside brackets under the current fold state.
func (p *parser) literal(r rune) *Node { return p.unit(r, p.fold) }

func (p *parser) unit(r rune, fold bool) *Node {
	if p.o.Bytes && r >= 0x80 {
		// A code point above ASCII stands for its UTF-8 encoding and is never folded
		// ("{#bytes}αβ+", "{#bytes}(?i)γ", "{#bytes}Ā" in regexp_test.go).
		var buf [4]byte
		n := utf8.EncodeRune(buf[:], r)
		var subs []*Node
		for _, b := range buf[:n] {
			subs = append(subs, &Node{Kind: Leaf, Set: One(rune(b))})
		}
		return &Node{Kind: Cat, Sub: subs}
	}
	s := One(r)
	if fold {
		s = s.Fold(p.o.Bytes)
	}
	return &Node{Kind: Leaf, Set: s}
}

// quantifier parses "n}", "n,}" or "n,m}" (the '{' is consumed, the next character is a digit).
func (p *parser) quantifier() (min, max int) {
	num := func() (int, bool) {
		s := p.pos
		for isDigit(p.peek()) {
			p.pos++
		}
		if s == p.pos {
			return 0, false
		}
		v, err := strconv.Atoi(p.src[s:p.pos])
		if err != nil {
			// "{abc}{99999999999999999999}" is an error in regexp_test.go.
			p.fail("bad-quantifier", "repeat count does not fit an int")
		}
		return v, true
	}
	min, _ = num()
	max = min
	if p.peek() == ',' {
		p.pos++
		max = -1
		if v, ok := num(); ok {
			max = v
			if max < min {
				p.fail("bad-quantifier", "{n,m} with m < n")
			}
		}
	}
	if p.peek() != '}' {
		p.fail("bad-quantifier", "malformed {n,m}")
	}
	p.pos++
	return min, max
}

// esc is a decoded backslash escape.
type esc struct {
	isSet    bool
	r        rune      // !isSet
	byteForm bool      // \xHH, \x{..} or octal
	set      Set       // isSet: the class as written, WITHOUT folding (negation applied)
	pos      Set       // isSet: the positive class before negation
	negated  bool      // isSet
	kind     NamedKind // isSet: "" for \d\w\s
	perl     bool
	name     string
	tag      string
}

var perlClasses = map[rune]Set{
	'd': {{'0', '9'}},
	'w': {{'0', '9'}, {'A', 'Z'}, {'_', '_'}, {'a', 'z'}},
	's': {{'\t', '\r'}, {' ', ' '}}, // \t \n \v \f \r and space
}

// escape parses one backslash escape; p.pos is at the backslash.
func (p *parser) escape(inClass bool) esc {
	p.pos++
	c, w := p.peekW()
	if c == eof {
		p.fail("trailing-backslash", "pattern ends with a backslash")
	}
	p.pos += w
	switch {
	case c >= '0' && c <= '7':
		// \OOO: exactly three octal digits, at most \377.
		v := c - '0'
		for i := 0; i < 2; i++ {
			d := p.peek()
			if d < '0' || d > '7' {
				p.fail("bad-octal", "octal escapes have exactly three digits")
			}
			p.pos++
			v = v*8 + (d - '0')
		}
		if v > 0xff {
			p.fail("octal-out-of-range", "octal escape above \\377")
		}
		return esc{r: v, byteForm: true, tag: "escape-octal"}

	case c == 'x' || c == 'u' || c == 'U':
		var v int64
		hex := func() {
			d := p.peek()
			var x int64
			switch {
			case d >= '0' && d <= '9':
				x = int64(d - '0')
			case d >= 'a' && d <= 'f':
				x = int64(d-'a') + 10
			case d >= 'A' && d <= 'F':
				x = int64(d-'A') + 10
			default:
				panic(reject{reason: "bad-hex-digit", detail: "not a hexadecimal digit", pos: p.pos, bad: d})
			}
			p.pos++
			if v <= MaxRune { // saturate instead of overflowing
				v = v*16 + x
			}
		}
		tag := "escape-hex-" + string(c)
		if p.peek() == '{' {
			tag = "escape-hex-brace"
			p.pos++
			hex() // at least one digit
			for p.peek() != '}' {
				hex()
			}
			p.pos++
		} else {
			n := map[rune]int{'x': 2, 'u': 4, 'U': 8}[c]
			for i := 0; i < n; i++ {
				hex()
			}
		}
		if v > MaxRune {
			p.fail("hex-out-of-range", "code point above U+10FFFF")
		}
		return esc{r: rune(v), byteForm: c == 'x', tag: tag}

	case c == 'p' || c == 'P':
		negated := c == 'P'
		var name string
		if p.peek() == '{' {
			p.pos++
			if p.peek() == '^' {
				negated = !negated
				p.pos++
			}
			s := p.pos
			for isIdent(p.peek()) {
				p.pos++
			}
			if s == p.pos || p.peek() != '}' {
				p.fail("bad-class-name", "malformed \\p{Name}")
			}
			name = p.src[s:p.pos]
			p.pos++
		} else {
			n, w := p.peekW()
			if n == eof {
				p.fail("bad-class-name", "\\p without a name")
			}
			p.pos += w
			name = string(n)
		}
		var set Set
		var kind NamedKind
		if p.o.Bytes {
			// Only Any and Ascii exist in byte mode ("{#bytes}\p{Lu}" is an error in regexp_test.go).
			switch name {
			case "Any":
				set, kind = Set{{0, 0xff}}, KindAny
			case "Ascii":
				set, kind = Set{{0, 0x7f}}, KindAscii
			default:
				p.fail("unknown-class", "no such class in byte mode: "+name)
			}
		} else {
			var ok bool
			set, kind, ok = Named(name)
			if !ok {
				p.fail("unknown-class", "no such Unicode class: "+name)
			}
			if kind == KindScript && p.q.ScriptAlwaysFolded {
				set = set.Fold(false)
			}
		}
		e := esc{isSet: true, pos: set, set: set, negated: negated, kind: kind, name: name, tag: "class-" + string(kind)}
		if negated {
			e.set = set.Complement(p.o.max())
			e.tag += "-negated"
		}
		return e

	case c == 'd' || c == 'w' || c == 's' || c == 'D' || c == 'W' || c == 'S':
		lower := c | 0x20
		set := perlClasses[lower]
		e := esc{isSet: true, pos: set, set: set, perl: true, negated: c != lower, tag: "class-perl-" + string(lower)}
		if e.negated {
			e.set = set.Complement(p.o.max())
			e.tag += "-negated"
		}
		return e
	}
	switch c {
	case 'a':
		return esc{r: '\a', tag: "escape-control"}
	case 'f':
		return esc{r: '\f', tag: "escape-control"}
	case 'n':
		return esc{r: '\n', tag: "escape-control"}
	case 'r':
		return esc{r: '\r', tag: "escape-control"}
	case 't':
		return esc{r: '\t', tag: "escape-control"}
	case 'v':
		return esc{r: '\v', tag: "escape-control"}
	}
	if isAlnum(c) {
		// "\T" is an error in regexp_test.go. \b \c \e are escapes in neighbouring dialects (flex,
		// and the vscode grammar even highlights \cA); nothing documents them here.
		if c == 'b' || c == 'c' || c == 'e' {
			p.unspec("escape-" + string(c))
		}
		p.fail("unknown-escape", "no such escape: \\"+string(c))
	}
	if c >= utf8.RuneSelf {
		p.unspec("escaped-non-ascii")
		p.fail("unknown-escape", "backslash before a non-ASCII character")
	}
	return esc{r: c, tag: "escape-punct"}
}

// standaloneClass is the denotation of a class escape outside brackets.
func (p *parser) standaloneClass(e esc) Set {
	set := e.pos
	if p.fold {
		// Nothing documents whether (?i) reaches into a class escape that stands alone: lex folds
		// \p{<Category>} and \p{<Script>} through Go's Fold tables, but not \w \W, \p{<Property>},
		// \p{Ascii} (so "(?i)\w" lacks U+017F/U+212A although "(?i)[\w]" and "(?i)s" have them), and
		// RE2/Go's regexp do not agree with each other either. Only classes that are closed under
		// case folding anyway (\d \s \p{Nd} \p{Any} ..) are checked here; inside brackets the
		// fold of the whole bracket expression is documented by regexp_test.go and is checked.
		folded := set.Fold(p.o.Bytes)
		if !folded.Equal(set) {
			p.unspec("fold-of-standalone-class-escape")
		}
		set = folded
	}
	if e.negated {
		set = set.Complement(p.o.max())
	}
	return set
}

// class parses a bracket expression; p.pos is at '['. outer: fold and record as an atom.
func (p *parser) class(outer bool) (Set, string) {
	max := p.o.max()
	p.pos++
	negated := false
	if p.peek() == '^' {
		negated = true
		p.pos++
	}
	var plain []Range // characters and ranges
	var sets []Set    // positive class escapes and '.'
	var negs []esc    // negated class escapes used as members
	var subs []Set    // subtracted sets
	first := true
	sawSub := false
	if p.peek() == ']' {
		// POSIX: a ']' right after '[' or '[^' is a member ("[]]", "[^]]").
		plain = append(plain, Range{']', ']'})
		p.pos++
		first = false
	}
	char := func() rune {
		c, w := p.peekW()
		if c > max {
			p.fail("byte-mode-char", fmt.Sprintf("U+%04X in a byte mode class", c))
		}
		if p.o.Bytes && c >= 0x80 {
			// "{#bytes}[é]": lex takes the byte 0xE9, although é is two bytes in the input and
			// "{#bytes}é" outside brackets means those two bytes. Only > U+00FF is documented (error).
			p.unspec("byte-mode-latin1-literal-in-class")
		}
		p.pos += w
		return c
	}
	single := func(e esc) rune {
		if e.r > max {
			p.fail("byte-mode-char", fmt.Sprintf("U+%04X in a byte mode class", e.r))
		}
		return e.r
	}
	asChar := func(e esc) (rune, bool) { // quirk emulation only
		if e.isSet && p.q.SingleRuneClassIsChar && len(e.set) == 1 && e.set[0].Lo == e.set[0].Hi {
			return e.set[0].Lo, true
		}
		return 0, false
	}
	for {
		c := p.peek()
		if c == eof {
			p.fail("unclosed-bracket", "missing ']'")
		}
		if c == ']' {
			break
		}
		var lo rune
		haveLo := false
		if c == '-' {
			switch p.peek2() {
			case '[':
				// "-[...]": subtraction of a nested class ("[A-Z-[D]-[EF]]", "[-[a-z]]").
				p.pos++
				s, _ := p.class(false)
				subs = append(subs, s)
				sawSub, first = true, false
				p.tag("class-subtraction")
				continue
			case '\\':
				p.pos++
				e := p.escape(true)
				if r, ok := asChar(e); ok {
					e = esc{r: r}
				}
				if e.isSet {
					// "-\p{Lu}": subtraction of a class escape ("[\p{L}-\p{Lu}-[..]]").
					subs = append(subs, e.set)
					sawSub, first = true, false
					p.tag("class-subtraction")
					continue
				}
				// "-\n": a literal dash, then an ordinary member ("[-\n\014-\125]").
				if !first {
					p.unspec("dash-inside-class")
				}
				plain = append(plain, Range{'-', '-'})
				lo, haveLo = single(e), true
			default:
				// A dash that neither forms a range nor starts a subtraction is documented as
				// itself only at the two ends ("[-a-zA-Z-]", "[arz\n-]"). In the middle POSIX
				// leaves it undefined ("[a-z-0]", "[--a]"); lex takes it literally.
				p.pos++
				if !first && p.peek() != ']' {
					p.unspec("dash-inside-class")
				}
				plain = append(plain, Range{'-', '-'})
				first = false
				continue
			}
		}
		if sawSub {
			// "[a-z-[aeiou]0-9]": members after a subtraction. lex unions all members and then
			// subtracts; .NET (where the syntax comes from) forbids it.
			p.unspec("member-after-subtraction")
		}
		if !haveLo {
			switch c {
			case '.':
				// "([.a-z])+" in regexp_test.go: inside brackets the dot is still "any but newline".
				p.pos++
				sets = append(sets, Set{{0, '\n' - 1}, {'\n' + 1, max}})
				first = false
				continue
			case '\\':
				e := p.escape(true)
				if r, ok := asChar(e); ok {
					e = esc{r: r}
				}
				if e.isSet {
					if e.negated {
						negs = append(negs, e)
					} else {
						sets = append(sets, e.set)
					}
					first = false
					continue
				}
				lo = single(e)
			default:
				lo = char()
			}
		}
		first = false
		if n := p.peek2(); p.peek() == '-' && n != eof && n != ']' {
			if n == '[' {
				// "[A-[B]]": a range ending at '[' (POSIX) or a subtraction (.NET)? lex: a range.
				p.unspec("range-to-open-bracket")
			}
			p.pos++
			var hi rune
			if p.peek() == '\\' {
				e := p.escape(true)
				if r, ok := asChar(e); ok {
					e = esc{r: r}
				}
				if e.isSet {
					p.fail("range-endpoint-is-class", "a class cannot end a range")
				}
				hi = single(e)
			} else {
				hi = char()
			}
			if hi < lo {
				p.fail("inverted-range", "range with end below start")
			}
			plain = append(plain, Range{lo, hi})
			p.tag("class-range")
		} else {
			plain = append(plain, Range{lo, lo})
		}
	}
	p.pos++ // ]

	members := Norm(plain)
	for _, s := range sets {
		members = members.Union(s)
	}
	var sub Set
	for _, s := range subs {
		sub = sub.Union(s)
	}
	// Reading taken by lex: (all members, negated escapes included as complements) minus all
	// subtrahends, THEN folded as one set, THEN negated.
	all := members
	for _, e := range negs {
		all = all.Union(e.set)
	}
	set := all.Minus(sub, max)
	if outer && p.fold {
		set = set.Fold(p.o.Bytes)
		if len(negs) > 0 || len(subs) > 0 {
			// The other defensible reading under (?i): every piece is case-insensitive on its own,
			// i.e. a negated escape is the complement of the folded class (as "(?i)[^b-e]"), and
			// the subtrahend removes both cases. "(?i)[\W]" contains 'k' in the first reading
			// (U+212A is \W and folds to k) and not in the second; "(?i)[a-z-[A]]" contains 'a' in
			// the first and not in the second. Documented nowhere: only patterns where the two
			// readings coincide are checked.
			alt := members.Fold(p.o.Bytes)
			for _, e := range negs {
				alt = alt.Union(e.pos.Fold(p.o.Bytes).Complement(max))
			}
			alt = alt.Minus(sub.Fold(p.o.Bytes), max)
			if !alt.Equal(set) {
				p.unspec("fold-with-negated-or-subtracted-member")
			}
		}
	}
	tag := "bracket"
	if len(subs) > 0 {
		tag += "-subtract"
	}
	if negated {
		set = set.Complement(max)
		tag += "-negated"
	}
	return set, tag
}
