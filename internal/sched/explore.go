package sched

// Explore enumerates every schedule that deviates from the default schedule (always
// choice 0 = keep running the thread that ran last, else the oldest enabled thread)
// in at most maxDev decisions: first the default schedule, then all schedules with one
// deviation, then two, ... (so the first failing schedule has the fewest deviations).
//
// run executes one schedule: follow prefix, then choice 0, and return the complete
// trace; expect carries the recorded steps for the prefix positions so that the
// scheduler can detect divergence. A schedule is identified by its deviation
// positions/alternatives; a child deviates only at positions after its parent's
// prefix, hence every schedule is generated exactly once.
//
// run returns ok=false to abort the search (failure, budget); Explore then returns
// false. The number of executed schedules is returned as well.
func Explore(maxDev int, run func(prefix []int, expect []Step) (trace []Step, ok bool)) (schedules int, completed bool) {
	type node struct {
		prefix []int
		expect []Step
	}
	level := []node{{}}
	for dev := 0; dev <= maxDev && len(level) > 0; dev++ {
		var next []node
		for _, n := range level {
			trace, ok := run(n.prefix, n.expect)
			schedules++
			if !ok {
				return schedules, false
			}
			if dev == maxDev {
				continue
			}
			for i := len(n.prefix); i < len(trace); i++ {
				for a := 1; a < trace[i].Enabled; a++ {
					p := make([]int, i+1)
					for j := 0; j < i; j++ {
						p[j] = trace[j].Choice
					}
					p[i] = a
					next = append(next, node{prefix: p, expect: trace[:i+1]})
				}
			}
		}
		level = next
	}
	return schedules, true
}
