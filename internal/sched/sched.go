// Package sched is a controlled scheduler for goroutines that run inside a
// testing/synctest bubble, plus a stateless search over schedules (explore.go).
//
// The code under test is not modified beyond calls to a "point" function at the
// places where it touches shared state. A goroutine that reaches a point parks on a
// channel that belongs to the bubble. The controller (the bubble's root goroutine)
// calls Wait (synctest.Wait: every goroutine of the bubble is durably blocked), looks
// at the set of parked threads whose guard holds ("enabled"), puts them in canonical
// order (the thread that ran last first, then creation order), picks the one selected
// by the current choice prefix (0 once the prefix is exhausted), releases it and
// repeats. When nothing is enabled the schedule is over; the caller decides whether
// that state is a proper end or a deadlock.
//
// The package imports only the standard library: the C23 harness overlays it into the
// module under test (it has to live in the same module as `package main` of
// cmd/textmapper), while /verif builds it as verif/internal/sched.
package sched

import (
	"errors"
	"fmt"
	"runtime"
	"sort"
	"strconv"
	"strings"
	"sync"
)

// Step is one decision of the controller.
type Step struct {
	Enabled int    `json:"e"`  // number of enabled threads the choice was made from
	Choice  int    `json:"c"`  // index of the released thread in canonical order
	Thread  int    `json:"t"`  // creation index of the released thread
	At      string `json:"at"` // point the thread was parked at
}

// Choices extracts the choice sequence of a trace.
func Choices(steps []Step) []int {
	out := make([]int, len(steps))
	for i, s := range steps {
		out[i] = s.Choice
	}
	return out
}

// ErrDiverged is returned by Run when the replayed prefix does not lead to the
// recorded enabled-sets: the system under test is not deterministic under the
// scheduler, which invalidates every conclusion. It is a hard error, never a finding.
var ErrDiverged = errors.New("schedule diverged while replaying a recorded prefix")

// DivergedError is the error returned by Run on divergence; it wraps ErrDiverged and
// says where: At is the hook point of the step that could not be reproduced.
type DivergedError struct {
	StepIndex int
	Recorded  Step // zero if the prefix simply asked for a choice that does not exist
	Now       Step
	Msg       string
}

func (e *DivergedError) Error() string { return ErrDiverged.Error() + ": " + e.Msg }
func (e *DivergedError) Unwrap() error { return ErrDiverged }

// At names the hook point involved (the recorded one if known).
func (e *DivergedError) At() string {
	if e.Recorded.At != "" {
		return e.Recorded.At
	}
	return e.Now.At
}

// ErrStepLimit is returned when a schedule does not end within MaxSteps decisions.
var ErrStepLimit = errors.New("step limit reached (livelock?)")

// T is a controlled thread.
type T struct {
	s      *S
	ID     int // creation index, assigned by the controller (-1 until adopted)
	Name   string
	Guard  func(at string) bool // nil: always enabled while parked
	goid   uint64
	wake   chan bool
	at     string
	parked bool
	exited bool
}

// S is the scheduler of one execution (one bubble).
type S struct {
	Wait func() // synctest.Wait
	// AnonGuard is the guard given to threads that register themselves through Point.
	AnonGuard func(at string) bool
	// OnStep, if set, is called by the controller at every decision (quiescent state)
	// before the chosen thread is released.
	OnStep func(s *S, enabled []*T, chosen *T)
	// MaxSteps bounds the length of a schedule (default 10000).
	MaxSteps int

	prefix []int
	expect []Step
	bubble uint64 // synctest bubble of the goroutine that called New

	mu       sync.Mutex
	threads  []*T // adopted, by creation index
	fresh    []*T // registered since the last decision, not yet adopted
	byG      map[uint64]*T
	last     *T
	steps    []Step
	shutdown bool

	// MaxParked is the largest number of simultaneously parked threads whose name
	// satisfies CountParked (all threads if CountParked is nil).
	MaxParked   int
	CountParked func(t *T) bool
}

// New creates a scheduler that follows the choice prefix and then always takes
// choice 0. expect, if not nil, holds the recorded steps of the prefix (all but the
// last choice of the prefix come from a recorded run); Run verifies them.
func New(wait func(), prefix []int, expect []Step) *S {
	_, bubble := goid()
	return &S{Wait: wait, prefix: prefix, expect: expect, bubble: bubble, byG: map[uint64]*T{}, MaxSteps: 10000}
}

// NewThread registers a thread explicitly (call it from the controller goroutine,
// before the thread's goroutine starts). Explicit threads come first in creation order.
func (s *S) NewThread(name string, guard func(at string) bool) *T {
	s.mu.Lock()
	defer s.mu.Unlock()
	t := &T{s: s, ID: len(s.threads), Name: name, Guard: guard, wake: make(chan bool, 1)}
	s.threads = append(s.threads, t)
	return t
}

// Park blocks the calling goroutine until the controller releases the thread.
// It returns false when the scheduler was shut down instead.
func (t *T) Park(at string) bool {
	t.s.mu.Lock()
	if t.s.shutdown {
		t.s.mu.Unlock()
		return false
	}
	t.at = at
	t.parked = true
	t.s.mu.Unlock()
	return <-t.wake
}

// Exit marks the thread as finished.
func (t *T) Exit() {
	t.s.mu.Lock()
	t.exited = true
	t.s.mu.Unlock()
}

// Point is the hook for goroutines that are not created by the harness (request
// handlers): the calling goroutine is identified by its goroutine id; on its first
// point it becomes a new thread named after the part of `at` before the first ':'.
// A goroutine that does not belong to the scheduler's bubble (e.g. one left behind by
// other code that calls the same hooks) is never parked: it could not be observed by
// Wait and would corrupt the enabled sets.
func (s *S) Point(at string) {
	g, bubble := goid()
	if bubble != s.bubble {
		return
	}
	s.mu.Lock()
	if s.shutdown {
		s.mu.Unlock()
		return
	}
	t := s.byG[g]
	if t == nil {
		name := at
		for i := 0; i < len(at); i++ {
			if at[i] == ':' {
				name = at[:i]
				break
			}
		}
		t = &T{s: s, ID: -1, Name: name, Guard: s.AnonGuard, goid: g, wake: make(chan bool, 1)}
		s.byG[g] = t
		s.fresh = append(s.fresh, t)
	}
	t.at = at
	t.parked = true
	s.mu.Unlock()
	<-t.wake
}

// adopt gives creation indices to the threads that registered since the last
// decision. Several of them in one quiescence interval are ordered by goroutine id
// (= creation order when the process runs on one P, which the harness arranges).
func (s *S) adopt() {
	if len(s.fresh) == 0 {
		return
	}
	sort.Slice(s.fresh, func(i, j int) bool { return s.fresh[i].goid < s.fresh[j].goid })
	for _, t := range s.fresh {
		t.ID = len(s.threads)
		s.threads = append(s.threads, t)
	}
	s.fresh = s.fresh[:0]
}

// Threads returns the adopted threads in creation order (controller goroutine only).
func (s *S) Threads() []*T { return s.threads }

// At reports where the thread is parked ("" if it is not).
func (t *T) At() string {
	if t.parked {
		return t.at
	}
	return ""
}

// Exited reports whether Exit was called.
func (t *T) Exited() bool { return t.exited }

// Steps returns the decisions taken so far.
func (s *S) Steps() []Step { return s.steps }

func (s *S) enabledLocked() []*T {
	var out []*T
	parked := 0
	if s.last != nil && s.last.parked && (s.last.Guard == nil || s.last.Guard(s.last.at)) {
		out = append(out, s.last)
	}
	for _, t := range s.threads {
		if !t.parked {
			continue
		}
		if s.CountParked == nil || s.CountParked(t) {
			parked++
		}
		if t == s.last {
			continue
		}
		if t.Guard == nil || t.Guard(t.at) {
			out = append(out, t)
		}
	}
	if parked > s.MaxParked {
		s.MaxParked = parked
	}
	return out
}

// Run is the controller loop. It returns nil when no thread is enabled any more.
func (s *S) Run() error {
	for {
		s.Wait()
		s.mu.Lock()
		s.adopt()
		enabled := s.enabledLocked()
		if len(enabled) == 0 {
			s.mu.Unlock()
			return nil
		}
		i := len(s.steps)
		if i >= s.MaxSteps {
			s.mu.Unlock()
			return ErrStepLimit
		}
		c := 0
		if i < len(s.prefix) {
			c = s.prefix[i]
		}
		if c >= len(enabled) {
			now := Step{Enabled: len(enabled), Thread: enabled[0].ID, At: enabled[0].at}
			var rec Step
			if i < len(s.expect) {
				rec = s.expect[i]
			}
			s.mu.Unlock()
			return &DivergedError{StepIndex: i, Recorded: rec, Now: now, Msg: fmt.Sprintf("step %d wants choice %d of %d enabled", i, c, len(enabled))}
		}
		t := enabled[c]
		st := Step{Enabled: len(enabled), Choice: c, Thread: t.ID, At: t.at}
		if i < len(s.expect) {
			e := s.expect[i]
			// the last element of the prefix is the new deviation: same enabled set, other choice
			if e.Enabled != st.Enabled || (e.Choice == st.Choice && (e.Thread != st.Thread || e.At != st.At)) {
				s.mu.Unlock()
				return &DivergedError{StepIndex: i, Recorded: e, Now: st, Msg: fmt.Sprintf("step %d recorded %+v, now %+v", i, e, st)}
			}
		}
		s.steps = append(s.steps, st)
		s.last = t
		t.parked = false
		s.mu.Unlock()
		if s.OnStep != nil {
			s.OnStep(s, enabled, t)
		}
		t.wake <- true
	}
}

// ParkedDisabled lists the threads that are parked but whose guard does not hold
// (call after Run returned nil: a non-empty list means they can never run again).
func (s *S) ParkedDisabled() []*T {
	s.mu.Lock()
	defer s.mu.Unlock()
	var out []*T
	for _, t := range s.threads {
		if t.parked {
			out = append(out, t)
		}
	}
	return out
}

// Shutdown releases every parked thread: Park returns false, Point returns, and
// later calls of either return immediately.
func (s *S) Shutdown() {
	s.mu.Lock()
	s.shutdown = true
	var wake []*T
	for _, t := range append(append([]*T{}, s.threads...), s.fresh...) {
		if t.parked {
			t.parked = false
			wake = append(wake, t)
		}
	}
	s.mu.Unlock()
	for _, t := range wake {
		t.wake <- false
	}
}

// goid returns the id of the calling goroutine and the id of the synctest bubble it
// belongs to (0 = none), parsed from the first line of its stack trace:
// "goroutine 123 [running, synctest bubble 7]:".
func goid() (id, bubble uint64) {
	var buf [128]byte
	n := runtime.Stack(buf[:], false)
	b := buf[:n]
	for i := 0; i < len(b); i++ {
		if b[i] == '\n' {
			b = b[:i]
			break
		}
	}
	const p = "goroutine "
	if len(b) < len(p) {
		return 0, 0
	}
	b = b[len(p):]
	i := 0
	for i < len(b) && b[i] >= '0' && b[i] <= '9' {
		i++
	}
	id, _ = strconv.ParseUint(string(b[:i]), 10, 64)
	const q = "synctest bubble "
	line := string(b)
	if j := strings.Index(line, q); j >= 0 {
		k := j + len(q)
		e := k
		for e < len(line) && line[e] >= '0' && line[e] <= '9' {
			e++
		}
		bubble, _ = strconv.ParseUint(line[k:e], 10, 64)
	}
	return id, bubble
}
