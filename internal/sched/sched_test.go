package sched

import (
	"fmt"
	"strings"
	"testing"
	"testing/synctest"
)

// toy runs `threads` goroutines that each append their name `steps` times to a log,
// parking before every append, under the given schedule prefix.
func toy(t *testing.T, threads, steps int, prefix []int, expect []Step) (log string, trace []Step, err error) {
	synctest.Test(t, func(t *testing.T) {
		s := New(synctest.Wait, prefix, expect)
		var sb strings.Builder
		for i := 0; i < threads; i++ {
			th := s.NewThread(fmt.Sprintf("t%d", i), nil)
			go func(i int) {
				for k := 0; k < steps; k++ {
					if !th.Park(fmt.Sprintf("p%d", k)) {
						return
					}
					fmt.Fprintf(&sb, "%d", i)
				}
				th.Exit()
			}(i)
		}
		err = s.Run()
		trace = s.Steps()
		s.Shutdown()
		synctest.Wait()
		log = sb.String()
	})
	return
}

func multinomial(threads, steps int) int {
	// (threads*steps)! / (steps!)^threads
	n := 1
	total := 0
	for i := 0; i < threads; i++ {
		for k := 1; k <= steps; k++ {
			total++
			n = n * total / k
		}
	}
	return n
}

// With enough deviations allowed, Explore produces every interleaving exactly once.
func TestExploreIsExhaustiveAndDuplicateFree(t *testing.T) {
	for _, c := range []struct{ threads, steps int }{{2, 2}, {2, 3}, {3, 2}} {
		seen := map[string]int{}
		n, completed := Explore(c.threads*c.steps, func(prefix []int, expect []Step) ([]Step, bool) {
			log, trace, err := toy(t, c.threads, c.steps, prefix, expect)
			if err != nil {
				t.Fatalf("prefix %v: %v", prefix, err)
			}
			seen[log]++
			return trace, true
		})
		if !completed {
			t.Fatal("not completed")
		}
		want := multinomial(c.threads, c.steps)
		if len(seen) != want || n != want {
			t.Errorf("%d threads x %d steps: %d schedules, %d distinct interleavings, want %d", c.threads, c.steps, n, len(seen), want)
		}
		for log, k := range seen {
			if k != 1 {
				t.Errorf("interleaving %s produced %d times", log, k)
			}
		}
	}
}

// The default schedule keeps running the thread that ran last; k deviations give at
// most k+... context switches, and levels are explored in order of deviations.
func TestDefaultScheduleAndLevels(t *testing.T) {
	var order []int
	Explore(1, func(prefix []int, expect []Step) ([]Step, bool) {
		log, trace, err := toy(t, 2, 2, prefix, expect)
		if err != nil {
			t.Fatal(err)
		}
		dev := 0
		for _, s := range trace {
			if s.Choice != 0 {
				dev++
			}
		}
		order = append(order, dev)
		if dev == 0 && log != "0011" {
			t.Errorf("default schedule gave %s, want 0011", log)
		}
		return trace, true
	})
	for i := 1; i < len(order); i++ {
		if order[i] < order[i-1] {
			t.Errorf("schedules not explored by increasing number of deviations: %v", order)
		}
	}
	if order[0] != 0 || len(order) < 2 {
		t.Errorf("unexpected exploration order %v", order)
	}
}

// Replaying a prefix against a system that behaves differently is detected.
func TestDivergenceIsDetected(t *testing.T) {
	_, trace, err := toy(t, 2, 2, nil, nil)
	if err != nil {
		t.Fatal(err)
	}
	// replay the recorded trace against a system with a different shape
	_, _, err = toy(t, 3, 1, Choices(trace), trace)
	if err == nil || !strings.Contains(err.Error(), "diverged") {
		t.Errorf("want divergence error, got %v", err)
	}
}

// A guard disables a parked thread; when nothing is enabled Run returns and the
// thread is reported by ParkedDisabled.
func TestGuardAndParkedDisabled(t *testing.T) {
	synctest.Test(t, func(t *testing.T) {
		s := New(synctest.Wait, nil, nil)
		open := false
		a := s.NewThread("a", nil)
		b := s.NewThread("b", func(string) bool { return open })
		var log []string
		go func() {
			a.Park("x")
			log = append(log, "a")
			a.Exit()
		}()
		go func() {
			if b.Park("y") {
				log = append(log, "b")
			}
		}()
		if err := s.Run(); err != nil {
			t.Fatal(err)
		}
		if len(log) != 1 || log[0] != "a" {
			t.Errorf("log %v", log)
		}
		if pd := s.ParkedDisabled(); len(pd) != 1 || pd[0] != b {
			t.Errorf("ParkedDisabled = %v", pd)
		}
		s.Shutdown()
		synctest.Wait()
	})
}
