// Package extsem holds reference semantics shared by several property checks.
//
// lang.go: bounded languages. A Lang is the set of all strings of length <= L over the alphabet
// {0..K-1} that belong to some language; every operation (union, concatenation, Kleene star,
// separated lists) is the textbook definition truncated at L. PlainLangs computes the bounded
// language of every symbol of a plain context-free grammar as a least fixpoint, so that the
// language denoted by some richer notation (computed by structural recursion with the operations
// above) can be compared with the language of the plain rules a tool produced for it.
//
// Strings are stored as bitsets, one per length: the string d0 d1 .. d(n-1) has the code
// d0 + d1*K + ... + d(n-1)*K^(n-1) in the bitset of length n.
package extsem

import (
	"math/bits"
	"sort"
)

// Lang is a set of strings of length <= L over {0..K-1}.
type Lang struct {
	K, L int
	b    [][]uint64
}

func pow(k, n int) int {
	r := 1
	for i := 0; i < n; i++ {
		r *= k
	}
	return r
}

// LEmpty is the empty language. Bitsets of lengths that hold no string stay nil.
func LEmpty(k, l int) *Lang {
	return &Lang{K: k, L: l, b: make([][]uint64, l+1)}
}

func (a *Lang) words(n int) []uint64 {
	if a.b[n] == nil {
		a.b[n] = make([]uint64, (pow(a.K, n)+63)/64)
	}
	return a.b[n]
}

// LEps is {ε}.
func LEps(k, l int) *Lang {
	out := LEmpty(k, l)
	out.words(0)[0] = 1
	return out
}

// LSym is the one-string language {t}.
func LSym(k, l, t int) *Lang {
	out := LEmpty(k, l)
	if l >= 1 {
		out.words(1)[t/64] |= 1 << uint(t%64)
	}
	return out
}

// Clone copies a.
func (a *Lang) Clone() *Lang {
	out := &Lang{K: a.K, L: a.L, b: make([][]uint64, len(a.b))}
	for n := range a.b {
		if a.b[n] != nil {
			out.b[n] = append([]uint64{}, a.b[n]...)
		}
	}
	return out
}

// AddAll adds every string of o to a (in place) and reports whether a grew.
func (a *Lang) AddAll(o *Lang) bool {
	changed := false
	for n := range o.b {
		if o.b[n] == nil {
			continue
		}
		var dst []uint64
		for i, w := range o.b[n] {
			if w == 0 {
				continue
			}
			if dst == nil {
				dst = a.words(n)
			}
			if w&^dst[i] != 0 {
				dst[i] |= w
				changed = true
			}
		}
	}
	return changed
}

// LUnion is a ∪ o.
func LUnion(a, o *Lang) *Lang {
	out := a.Clone()
	out.AddAll(o)
	return out
}

func forEachBit(ws []uint64, f func(code int)) {
	for i, w := range ws {
		for w != 0 {
			t := bits.TrailingZeros64(w)
			f(i*64 + t)
			w &^= 1 << uint(t)
		}
	}
}

func codes(ws []uint64, buf []int) []int {
	buf = buf[:0]
	for i, w := range ws {
		for w != 0 {
			t := bits.TrailingZeros64(w)
			buf = append(buf, i*64+t)
			w &^= 1 << uint(t)
		}
	}
	return buf
}

// LConcat is {xy : x in a, y in o, |xy| <= L}.
func LConcat(a, o *Lang) *Lang {
	out := LEmpty(a.K, a.L)
	var xs, ys []int
	for i := 0; i <= a.L; i++ {
		if a.b[i] == nil {
			continue
		}
		xs = codes(a.b[i], xs)
		if len(xs) == 0 {
			continue
		}
		sh := pow(a.K, i)
		for j := 0; i+j <= a.L; j++ {
			if o.b[j] == nil {
				continue
			}
			ys = codes(o.b[j], ys)
			if len(ys) == 0 {
				continue
			}
			dst := out.words(i + j)
			for _, y := range ys {
				base := y * sh
				for _, x := range xs {
					c := x + base
					dst[c>>6] |= 1 << uint(c&63)
				}
			}
		}
	}
	return out
}

// LOpt is a ∪ {ε}.
func LOpt(a *Lang) *Lang {
	out := a.Clone()
	out.words(0)[0] |= 1
	return out
}

// LStar is the Kleene closure of a (least X with X = {ε} ∪ a·X), truncated at L.
func LStar(a *Lang) *Lang {
	out := LEps(a.K, a.L)
	for {
		next := LConcat(a, out)
		if !out.AddAll(next) {
			return out
		}
	}
}

// LPlus is a·a*.
func LPlus(a *Lang) *Lang { return LConcat(a, LStar(a)) }

// LSepPlus is a (sep a)*: one or more a separated by sep.
func LSepPlus(a, sep *Lang) *Lang { return LConcat(a, LStar(LConcat(sep, a))) }

func (a *Lang) word(n, i int) uint64 {
	if a.b[n] == nil {
		return 0
	}
	return a.b[n][i]
}

// Equal reports whether both languages hold the same strings.
func (a *Lang) Equal(o *Lang) bool {
	if a.K != o.K || a.L != o.L {
		return false
	}
	for n := range a.b {
		for i, m := 0, (pow(a.K, n)+63)/64; i < m; i++ {
			if a.word(n, i) != o.word(n, i) {
				return false
			}
		}
	}
	return true
}

// Size is the number of strings.
func (a *Lang) Size() int {
	s := 0
	for n := range a.b {
		for _, w := range a.b[n] {
			s += bits.OnesCount64(w)
		}
	}
	return s
}

// Full reports whether a holds every string of length <= L.
func (a *Lang) Full() bool {
	t := 0
	for n := 0; n <= a.L; n++ {
		t += pow(a.K, n)
	}
	return a.Size() == t
}

// LDecode turns a code of the given length into its symbols.
func LDecode(k, n, code int) []int {
	out := make([]int, n)
	for i := 0; i < n; i++ {
		out[i] = code % k
		code /= k
	}
	return out
}

// Has reports membership of the symbol string w.
func (a *Lang) Has(w []int) bool {
	if len(w) > a.L {
		return false
	}
	c, m := 0, 1
	for _, d := range w {
		c += d * m
		m *= a.K
	}
	return a.word(len(w), c/64)&(1<<uint(c%64)) != 0
}

// Strings lists the members (shortest first, then by code) as strings of bytes 'a'+symbol; at most
// limit strings when limit > 0.
func (a *Lang) Strings(limit int) []string {
	var out []string
	for n := 0; n <= a.L; n++ {
		var codes []int
		forEachBit(a.b[n], func(c int) { codes = append(codes, c) })
		var ss []string
		for _, c := range codes {
			buf := make([]byte, n)
			for i, d := range LDecode(a.K, n, c) {
				buf[i] = byte('a' + d)
			}
			ss = append(ss, string(buf))
		}
		sort.Strings(ss)
		for _, s := range ss {
			if limit > 0 && len(out) >= limit {
				return out
			}
			out = append(out, s)
		}
	}
	return out
}

// FirstDiff returns the shortest string that is in exactly one of the two languages (as symbols)
// and whether it belongs to a; ok is false when the languages are equal.
func FirstDiff(a, o *Lang) (w []int, inA bool, ok bool) {
	for n := 0; n <= a.L; n++ {
		best := -1
		for i, m := 0, (pow(a.K, n)+63)/64; i < m; i++ {
			if d := a.word(n, i) ^ o.word(n, i); d != 0 {
				best = i*64 + bits.TrailingZeros64(d)
				break
			}
		}
		if best >= 0 {
			w = LDecode(a.K, n, best)
			return w, a.Has(w), true
		}
	}
	return nil, false, false
}

// PRule is a plain context-free rule. Symbols 0..K-1 are terminals, K.. are nonterminals.
type PRule struct {
	LHS int
	RHS []int
}

// PlainLangs returns, for every symbol 0..nsym-1 of the plain grammar, the strings of length <= L
// it derives (least fixpoint of the rule equations).
func PlainLangs(k, l, nsym int, rules []PRule) []*Lang {
	out := make([]*Lang, nsym)
	ver := make([]int, nsym) // bumped whenever the language of a symbol grows
	for s := 0; s < nsym; s++ {
		if s < k {
			out[s] = LSym(k, l, s)
		} else {
			out[s] = LEmpty(k, l)
		}
	}
	eps := LEps(k, l)
	seen := make([]int, len(rules)) // 1 + sum of RHS versions at the last evaluation
	for changed := true; changed; {
		changed = false
		for ri, r := range rules {
			sum := 1
			for _, s := range r.RHS {
				sum += ver[s]
			}
			if seen[ri] == sum {
				continue // versions only grow: equal sums mean no RHS language has changed
			}
			seen[ri] = sum
			cur := eps
			for i, s := range r.RHS {
				if i == 0 {
					cur = out[s] // ε·X = X (cur is only read below)
				} else {
					cur = LConcat(cur, out[s])
				}
			}
			if out[r.LHS].AddAll(cur) {
				ver[r.LHS]++
				changed = true
			}
		}
	}
	return out
}

// Hash is a 64-bit digest of the set (FNV-1a over the bitsets).
func (a *Lang) Hash() uint64 {
	h := uint64(14695981039346656037)
	for n := range a.b {
		for i, m := 0, (pow(a.K, n)+63)/64; i < m; i++ {
			w := a.word(n, i)
			for s := 0; s < 64; s += 8 {
				h ^= (w >> uint(s)) & 0xff
				h *= 1099511628211
			}
		}
	}
	return h
}
