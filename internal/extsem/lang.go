// Package extsem holds reference semantics shared by several property checks.
//
// lang.go: bounded languages. A Lang is the set of all strings of length <= L over the alphabet
// {0..K-1} that belong to some language; every operation (union, concatenation, Kleene star,
// separated lists) is the textbook definition truncated at L. PlainLangs computes the bounded
// language of every symbol of a plain context-free grammar as a least fixpoint, so that the
// language denoted by some richer notation (computed by structural recursion with the operations
// above) can be compared with the language of the plain rules a tool produced for it.
//
// Strings are stored as bitsets, one per length: the string d0 d1 .. d(n-1) has the code
// d0 + d1*K + ... + d(n-1)*K^(n-1) in the bitset of length n.
package extsem

import (
	"math/bits"
	"sort"
)

// Lang is a set of strings of length <= L over {0..K-1}.
type Lang struct {
	K, L int
	b    [][]uint64
}

func pow(k, n int) int {
	r := 1
	for i := 0; i < n; i++ {
		r *= k
	}
	return r
}

// Empty is the empty language.
func Empty(k, l int) *Lang {
	out := &Lang{K: k, L: l, b: make([][]uint64, l+1)}
	for n := 0; n <= l; n++ {
		out.b[n] = make([]uint64, (pow(k, n)+63)/64)
	}
	return out
}

// Eps is {ε}.
func Eps(k, l int) *Lang {
	out := Empty(k, l)
	out.b[0][0] = 1
	return out
}

// Sym is the one-string language {t}.
func Sym(k, l, t int) *Lang {
	out := Empty(k, l)
	if l >= 1 {
		out.b[1][t/64] |= 1 << uint(t%64)
	}
	return out
}

// Clone copies a.
func (a *Lang) Clone() *Lang {
	out := &Lang{K: a.K, L: a.L, b: make([][]uint64, len(a.b))}
	for n := range a.b {
		out.b[n] = append([]uint64{}, a.b[n]...)
	}
	return out
}

// AddAll adds every string of o to a (in place) and reports whether a grew.
func (a *Lang) AddAll(o *Lang) bool {
	changed := false
	for n := range a.b {
		for i, w := range o.b[n] {
			if w&^a.b[n][i] != 0 {
				a.b[n][i] |= w
				changed = true
			}
		}
	}
	return changed
}

// Union is a ∪ o.
func Union(a, o *Lang) *Lang {
	out := a.Clone()
	out.AddAll(o)
	return out
}

func forEachBit(ws []uint64, f func(code int)) {
	for i, w := range ws {
		for w != 0 {
			t := bits.TrailingZeros64(w)
			f(i*64 + t)
			w &^= 1 << uint(t)
		}
	}
}

// Concat is {xy : x in a, y in o, |xy| <= L}.
func Concat(a, o *Lang) *Lang {
	out := Empty(a.K, a.L)
	for i := 0; i <= a.L; i++ {
		var xs []int
		forEachBit(a.b[i], func(c int) { xs = append(xs, c) })
		if len(xs) == 0 {
			continue
		}
		sh := pow(a.K, i)
		for j := 0; i+j <= a.L; j++ {
			dst := out.b[i+j]
			forEachBit(o.b[j], func(y int) {
				base := y * sh
				for _, x := range xs {
					c := x + base
					dst[c/64] |= 1 << uint(c%64)
				}
			})
		}
	}
	return out
}

// Opt is a ∪ {ε}.
func Opt(a *Lang) *Lang {
	out := a.Clone()
	out.b[0][0] |= 1
	return out
}

// Star is the Kleene closure of a (least X with X = {ε} ∪ a·X), truncated at L.
func Star(a *Lang) *Lang {
	out := Eps(a.K, a.L)
	for {
		next := Concat(a, out)
		if !out.AddAll(next) {
			return out
		}
	}
}

// Plus is a·a*.
func Plus(a *Lang) *Lang { return Concat(a, Star(a)) }

// SepPlus is a (sep a)*: one or more a separated by sep.
func SepPlus(a, sep *Lang) *Lang { return Concat(a, Star(Concat(sep, a))) }

// Equal reports whether both languages hold the same strings.
func (a *Lang) Equal(o *Lang) bool {
	if a.K != o.K || a.L != o.L {
		return false
	}
	for n := range a.b {
		for i := range a.b[n] {
			if a.b[n][i] != o.b[n][i] {
				return false
			}
		}
	}
	return true
}

// Size is the number of strings.
func (a *Lang) Size() int {
	s := 0
	for n := range a.b {
		for _, w := range a.b[n] {
			s += bits.OnesCount64(w)
		}
	}
	return s
}

// Full reports whether a holds every string of length <= L.
func (a *Lang) Full() bool {
	t := 0
	for n := 0; n <= a.L; n++ {
		t += pow(a.K, n)
	}
	return a.Size() == t
}

// Decode turns a code of the given length into its symbols.
func Decode(k, n, code int) []int {
	out := make([]int, n)
	for i := 0; i < n; i++ {
		out[i] = code % k
		code /= k
	}
	return out
}

// Has reports membership of the symbol string w.
func (a *Lang) Has(w []int) bool {
	if len(w) > a.L {
		return false
	}
	c, m := 0, 1
	for _, d := range w {
		c += d * m
		m *= a.K
	}
	return a.b[len(w)][c/64]&(1<<uint(c%64)) != 0
}

// Strings lists the members (shortest first, then by code) as strings of bytes 'a'+symbol; at most
// limit strings when limit > 0.
func (a *Lang) Strings(limit int) []string {
	var out []string
	for n := 0; n <= a.L; n++ {
		var codes []int
		forEachBit(a.b[n], func(c int) { codes = append(codes, c) })
		var ss []string
		for _, c := range codes {
			buf := make([]byte, n)
			for i, d := range Decode(a.K, n, c) {
				buf[i] = byte('a' + d)
			}
			ss = append(ss, string(buf))
		}
		sort.Strings(ss)
		for _, s := range ss {
			if limit > 0 && len(out) >= limit {
				return out
			}
			out = append(out, s)
		}
	}
	return out
}

// FirstDiff returns the shortest string that is in exactly one of the two languages (as symbols)
// and whether it belongs to a; ok is false when the languages are equal.
func FirstDiff(a, o *Lang) (w []int, inA bool, ok bool) {
	for n := 0; n <= a.L; n++ {
		best := -1
		for i := range a.b[n] {
			if d := a.b[n][i] ^ o.b[n][i]; d != 0 {
				best = i*64 + bits.TrailingZeros64(d)
				break
			}
		}
		if best >= 0 {
			w = Decode(a.K, n, best)
			return w, a.Has(w), true
		}
	}
	return nil, false, false
}

// PRule is a plain context-free rule. Symbols 0..K-1 are terminals, K.. are nonterminals.
type PRule struct {
	LHS int
	RHS []int
}

// PlainLangs returns, for every symbol 0..nsym-1 of the plain grammar, the strings of length <= L
// it derives (least fixpoint of the rule equations).
func PlainLangs(k, l, nsym int, rules []PRule) []*Lang {
	out := make([]*Lang, nsym)
	for s := 0; s < nsym; s++ {
		if s < k {
			out[s] = Sym(k, l, s)
		} else {
			out[s] = Empty(k, l)
		}
	}
	eps := Eps(k, l)
	for changed := true; changed; {
		changed = false
		for _, r := range rules {
			cur := eps
			for _, s := range r.RHS {
				cur = Concat(cur, out[s])
			}
			if out[r.LHS].AddAll(cur) {
				changed = true
			}
		}
	}
	return out
}
