// Package extsem holds reference semantics for textmapper's extended grammar notation,
// written denotationally and independently of syntax.Expand / compiler.generateTables.
//
// events*.go (property C02): which listener events a parser generated from an annotated
// ("-> Node") event-based grammar must produce for a sentence, and with which byte ranges.
//
// The model (all of it is observable behaviour; nothing here looks at the compiler's output):
//
//   - A grammar is a list of nonterminals; every alternative is a sequence of parts; a part is
//     a terminal, a nonterminal reference, a parenthesised group of alternatives, an optional
//     `x?` or a list `x+`, `x*`, `(x separator t)+`, `(x separator t)*`. Every alternative
//     (top-level or inside a group) may carry an arrow `-> Name`. A nonterminal may carry a
//     default arrow (`S -> N :`) that applies to each of its top-level alternatives that has none.
//   - "Symbols" are what the range rule talks about: a terminal occurrence, one instance of a
//     nonterminal reference, one instance of a list. Groups, optionals and sequences are
//     transparent: an absent optional contributes no symbol at all, whereas a nonterminal or a
//     `*`-list that derives the empty string contributes one EMPTY symbol.
//   - Range rule: a token has its byte range; an empty symbol (and a part without symbols) sits
//     at the start offset of the following token (len(input) if there is none); a nonterminal
//     instance / list instance / annotated part spans from the offset of its first symbol to
//     the end offset of its last symbol. With fixWhitespace = true trailing EMPTY symbols are
//     ignored when the end offset is taken (so the span is "first token .. last token").
//     Without fixWhitespace a span whose last symbol is empty extends to the start of the
//     next token: the property statement's summary ("first to last token") is silent about
//     this and we side with the implementation; Event.Extends marks those events so that the
//     check can count them separately.
//   - Order: a derivation is a tree of rule applications (one per nonterminal instance, one
//     per list iteration). Events are listed in post-order of rule applications; one rule
//     application contributes the arrows written inside that rule in post-order (inner before
//     outer, left before right), the arrow covering the whole rule last. This is "reduce order":
//     an arrow inside a rule comes after the events of every nonterminal instance of that rule,
//     also of those to its right (generated AST builders re-insert by offset, see
//     parsers/tm/ast/parse.go addNode). FlatPostOrder gives the stricter reading in which all
//     arrows of the whole derivation are ordered by nesting/position; the check counts how often
//     the two differ instead of alarming, because the listener contract is the former.
//   - Arrows naming an %interface category and `-> __ignoreContent` are never events.
//   - A state marker `.name` is no symbol and covers no token: it never moves a range and never
//     hides an empty symbol before it from the fixWhitespace trimming.
//   - Grammar.Entries lists the %input declarations; every input has its own derivations
//     (TreesFrom) and is parsed through its own entry point; `no-eoi` does not change the events of
//     an exact sentence.
package extsem

import (
	"fmt"
	"sort"
	"strings"
)

// Kind of a part.
type Kind int

const (
	KTok    Kind = iota // terminal Ch
	KRef                // nonterminal NT
	KGroup              // ( alt | alt ... )
	KOpt                // Sub?
	KList               // Sub+ Sub* (Sub separator Sep)+ (Sub separator Sep)*
	KMarker             // .Name : a state marker; no symbol, no tokens, no event
)

// ArrowKind says whether an arrow is reported.
type ArrowKind int

const (
	NodeArrow     ArrowKind = iota // -> Name        (an event)
	IgnoreArrow                    // -> __ignoreContent (never an event)
	CategoryArrow                  // -> Name where Name is an %interface (never an event)
)

// Arrow is one "-> Name" annotation.
type Arrow struct {
	Name  string    `json:"name"`
	Kind  ArrowKind `json:"kind,omitempty"`
	Shape string    `json:"shape,omitempty"` // static description of where the arrow is written (AssignShapes)
}

// Expr is one part.
type Expr struct {
	Kind Kind   `json:"k"`
	Ch   byte   `json:"ch,omitempty"`     // Tok: 'a'..'c'
	NT   int    `json:"nt,omitempty"`     // Ref: index into Grammar.NTs
	Alts []*Alt `json:"alts,omitempty"`   // Group
	Sub  *Expr  `json:"sub,omitempty"`    // Opt, List: a Tok, Ref or Group
	Sep  byte   `json:"sep,omitempty"`    // List: separator terminal, 0 = none
	Plus bool   `json:"plus,omitempty"`   // List: at least one element
	Name string `json:"marker,omitempty"` // Marker: its name
}

// Alt is one alternative: a sequence of parts with an optional arrow.
type Alt struct {
	Parts []*Expr `json:"parts,omitempty"`
	Arrow *Arrow  `json:"arrow,omitempty"`
}

// Nonterm is one nonterminal.
type Nonterm struct {
	Name    string `json:"name"`
	Default *Arrow `json:"default,omitempty"` // S -> N :
	Alts    []*Alt `json:"alts"`
}

// Entry is one %input declaration.
type Entry struct {
	NT    int  `json:"nt"`
	NoEoi bool `json:"noeoi,omitempty"`
}

// Grammar: without Entries NTs[0] is the only input nonterminal (with eoi).
type Grammar struct {
	NTs     []*Nonterm `json:"nts"`
	Entries []Entry    `json:"entries,omitempty"` // %input a, b no-eoi; (empty = NTs[0])
}

// Inputs lists the %input declarations (the default when none is given).
func (g *Grammar) Inputs() []Entry {
	if len(g.Entries) == 0 {
		return []Entry{{NT: 0}}
	}
	return g.Entries
}

// ---------------------------------------------------------------------------------------------
// printing

func evTermName(ch byte) string { return "t" + string(rune(ch)) }

// Terminals lists the terminals used, sorted.
func (g *Grammar) Terminals() []byte {
	seen := map[byte]bool{}
	g.walkExprs(func(e *Expr) {
		if e.Kind == KTok {
			seen[e.Ch] = true
		}
		if e.Kind == KList && e.Sep != 0 {
			seen[e.Sep] = true
		}
	})
	var out []byte
	for ch := range seen {
		out = append(out, ch)
	}
	sort.Slice(out, func(i, j int) bool { return out[i] < out[j] })
	return out
}

func (g *Grammar) walkExprs(f func(e *Expr)) {
	var we func(e *Expr)
	var wa func(a *Alt)
	we = func(e *Expr) {
		f(e)
		for _, a := range e.Alts {
			wa(a)
		}
		if e.Sub != nil {
			we(e.Sub)
		}
	}
	wa = func(a *Alt) {
		for _, p := range a.Parts {
			we(p)
		}
	}
	for _, nt := range g.NTs {
		for _, a := range nt.Alts {
			wa(a)
		}
	}
}

// Arrows lists every arrow in text order (nonterminal default first, then the arrows of the
// alternatives in the order in which they are closed).
func (g *Grammar) Arrows() []*Arrow {
	var out []*Arrow
	var we func(e *Expr)
	var wa func(a *Alt)
	we = func(e *Expr) {
		for _, a := range e.Alts {
			wa(a)
		}
		if e.Sub != nil {
			we(e.Sub)
		}
	}
	wa = func(a *Alt) {
		for _, p := range a.Parts {
			we(p)
		}
		if a.Arrow != nil {
			out = append(out, a.Arrow)
		}
	}
	for _, nt := range g.NTs {
		if nt.Default != nil {
			out = append(out, nt.Default)
		}
		for _, a := range nt.Alts {
			wa(a)
		}
	}
	return out
}

func (g *Grammar) altString(a *Alt) string {
	var sb strings.Builder
	if len(a.Parts) == 0 {
		sb.WriteString("%empty")
	}
	for i, p := range a.Parts {
		if i > 0 {
			sb.WriteString(" ")
		}
		sb.WriteString(g.exprString(p))
	}
	if a.Arrow != nil {
		sb.WriteString(" -> ")
		sb.WriteString(a.Arrow.Name)
	}
	return sb.String()
}

func (g *Grammar) groupString(e *Expr) string {
	var alts []string
	for _, a := range e.Alts {
		alts = append(alts, g.altString(a))
	}
	return "(" + strings.Join(alts, " | ") + ")"
}

func (g *Grammar) exprString(e *Expr) string {
	switch e.Kind {
	case KTok:
		return evTermName(e.Ch)
	case KRef:
		return g.NTs[e.NT].Name
	case KGroup:
		return g.groupString(e)
	case KMarker:
		return "." + e.Name
	case KOpt:
		return g.exprString(e.Sub) + "?"
	case KList:
		q := "*"
		if e.Plus {
			q = "+"
		}
		if e.Sep == 0 {
			return g.exprString(e.Sub) + q
		}
		// '(' rhsParts listSeparator ')' : the element is a plain sequence of parts, so an
		// annotated or multi-alternative element stays in its own parentheses.
		inner := g.exprString(e.Sub)
		if e.Sub.Kind == KGroup && len(e.Sub.Alts) == 1 && e.Sub.Alts[0].Arrow == nil && len(e.Sub.Alts[0].Parts) > 0 {
			inner = strings.TrimSuffix(strings.TrimPrefix(inner, "("), ")")
		}
		return "(" + inner + " separator " + evTermName(e.Sep) + ")" + q
	}
	panic("bad expr kind")
}

// RulesText prints only the nonterminal definitions (used in messages).
func (g *Grammar) RulesText() string {
	var sb strings.Builder
	for _, nt := range g.NTs {
		sb.WriteString(nt.Name)
		if nt.Default != nil {
			sb.WriteString(" -> " + nt.Default.Name)
		}
		sb.WriteString(" :\n")
		for i, a := range nt.Alts {
			if i == 0 {
				sb.WriteString("    ")
			} else {
				sb.WriteString("  | ")
			}
			sb.WriteString(g.altString(a))
			sb.WriteString("\n")
		}
		sb.WriteString(";\n\n")
	}
	return sb.String()
}

// TM prints the grammar as a textmapper source for the Go target: package scratch/<name>,
// eventBased, a (space) rule for ' ', one-letter terminals.
func (g *Grammar) TM(name string, fixWS bool, options ...string) string {
	var sb strings.Builder
	fmt.Fprintf(&sb, "language %s(go);\n\npackage = \"scratch/%s\"\neventBased = true\n", name, name)
	if fixWS {
		sb.WriteString("fixWhitespace = true\n")
	}
	for _, o := range options {
		sb.WriteString(o + "\n")
	}
	sb.WriteString("\n:: lexer\n\nWhiteSpace: /[ ]+/ (space)\n")
	for _, ch := range g.Terminals() {
		fmt.Fprintf(&sb, "%s: /%c/\n", evTermName(ch), ch)
	}
	sb.WriteString("\n:: parser\n\n%input ")
	for i, in := range g.Inputs() {
		if i > 0 {
			sb.WriteString(", ")
		}
		sb.WriteString(g.NTs[in.NT].Name)
		if in.NoEoi {
			sb.WriteString(" no-eoi")
		}
	}
	sb.WriteString(";\n\n")
	seen := map[string]bool{}
	for _, a := range g.Arrows() {
		if a.Kind == CategoryArrow && !seen[a.Name] {
			seen[a.Name] = true
			fmt.Fprintf(&sb, "%%interface %s;\n\n", a.Name)
		}
	}
	sb.WriteString(g.RulesText())
	return sb.String()
}

// Clone deep-copies g (shared sub-trees become separate copies).
func (g *Grammar) Clone() *Grammar {
	var ce func(e *Expr) *Expr
	var ca func(a *Alt) *Alt
	cw := func(a *Arrow) *Arrow {
		if a == nil {
			return nil
		}
		c := *a
		return &c
	}
	ce = func(e *Expr) *Expr {
		if e == nil {
			return nil
		}
		c := *e
		c.Alts = nil
		for _, a := range e.Alts {
			c.Alts = append(c.Alts, ca(a))
		}
		c.Sub = ce(e.Sub)
		return &c
	}
	ca = func(a *Alt) *Alt {
		c := &Alt{Arrow: cw(a.Arrow)}
		for _, p := range a.Parts {
			c.Parts = append(c.Parts, ce(p))
		}
		return c
	}
	out := &Grammar{Entries: append([]Entry(nil), g.Entries...)}
	for _, nt := range g.NTs {
		c := &Nonterm{Name: nt.Name, Default: cw(nt.Default)}
		for _, a := range nt.Alts {
			c.Alts = append(c.Alts, ca(a))
		}
		out.NTs = append(out.NTs, c)
	}
	return out
}

// TermSlots returns pointers to every terminal occurrence (incl. separators) in text order.
func (g *Grammar) TermSlots() []*byte {
	var out []*byte
	var we func(e *Expr)
	we = func(e *Expr) {
		switch e.Kind {
		case KTok:
			out = append(out, &e.Ch)
		case KGroup:
			for _, a := range e.Alts {
				for _, p := range a.Parts {
					we(p)
				}
			}
		case KOpt:
			we(e.Sub)
		case KList:
			we(e.Sub)
			if e.Sep != 0 {
				out = append(out, &e.Sep)
			}
		}
	}
	for _, nt := range g.NTs {
		for _, a := range nt.Alts {
			for _, p := range a.Parts {
				we(p)
			}
		}
	}
	return out
}

// AssignShapes fills Arrow.Shape with a static description of the place of every arrow:
// rule, empty-alt, nt-default, nested, choice, opt, opt-choice, list+, list*, seplist+, seplist*;
// prefix "empty-" when the annotated alternative has no parts, suffix "/d2" when the arrow is
// written inside another annotated alternative of the same rule, "/nullable" when the annotated
// content can be without tokens although it has parts.
func (g *Grammar) AssignShapes() {
	d := &evDeriver{g: g}
	d.prepare()
	var we func(e *Expr, depth int)
	var wa func(a *Alt, shape string, depth int)
	we = func(e *Expr, depth int) {
		switch e.Kind {
		case KGroup:
			shape := "nested"
			if len(e.Alts) > 1 {
				shape = "choice"
			}
			for _, a := range e.Alts {
				wa(a, shape, depth)
			}
		case KOpt:
			if e.Sub.Kind == KGroup {
				shape := "opt"
				if len(e.Sub.Alts) > 1 {
					shape = "opt-choice"
				}
				for _, a := range e.Sub.Alts {
					wa(a, shape, depth)
				}
			}
		case KList:
			if e.Sub.Kind == KGroup {
				shape := "list"
				if e.Sep != 0 {
					shape = "seplist"
				}
				if e.Plus {
					shape += "+"
				} else {
					shape += "*"
				}
				for _, a := range e.Sub.Alts {
					wa(a, shape, depth)
				}
			}
		}
	}
	wa = func(a *Alt, shape string, depth int) {
		nd := depth
		if a.Arrow != nil {
			nd++
			s := shape
			if len(a.Parts) == 0 {
				s = "empty-" + s
			} else if d.seqMin(a.Parts) == 0 {
				s += "/nullable"
			}
			if depth > 0 {
				s += "/d2"
			}
			a.Arrow.Shape = s
		}
		for _, p := range a.Parts {
			we(p, nd)
		}
	}
	for _, nt := range g.NTs {
		depth := 0
		if nt.Default != nil {
			nt.Default.Shape = "nt-default"
		}
		for _, a := range nt.Alts {
			shape := "rule"
			if len(a.Parts) == 0 {
				shape = "alt" // becomes empty-alt
			}
			wa(a, shape, depth)
		}
	}
}

// ---------------------------------------------------------------------------------------------
// derivations

// Node is one symbol occurrence of a derivation: a token (Tok >= 0) or one rule application
// (a nonterminal instance or one iteration level of a list).
type Node struct {
	Tok   int // token index, -1 for rule applications
	I, J  int // token span [I, J)
	Syms  []*Node
	Parts []Part // the arrows written in this rule, post-order
	What  string // for messages
}

// Part is one annotated part inside a rule application: it covers Syms[P:Q] and the tokens
// [TI, TJ).
type Part struct {
	Arrow  *Arrow
	P, Q   int
	TI, TJ int
}

type evFrag struct {
	syms  []*Node
	parts []Part
}

const evInf = 1 << 20

type evDeriver struct {
	g        *Grammar
	w        []byte
	minLen   []int
	ntMemo   map[[3]int][]*Node
	inprog   map[[3]int]bool
	listMemo map[*Expr]map[[2]int][]*Node
	cyclic   bool
	overflow bool
	budget   int
}

func (d *evDeriver) prepare() {
	d.minLen = make([]int, len(d.g.NTs))
	for i := range d.minLen {
		d.minLen[i] = evInf
	}
	for changed := true; changed; {
		changed = false
		for i, nt := range d.g.NTs {
			for _, a := range nt.Alts {
				if m := d.seqMin(a.Parts); m < d.minLen[i] {
					d.minLen[i] = m
					changed = true
				}
			}
		}
	}
}

func (d *evDeriver) seqMin(parts []*Expr) int {
	s := 0
	for _, p := range parts {
		s += d.exprMin(p)
		if s >= evInf {
			return evInf
		}
	}
	return s
}

func (d *evDeriver) exprMin(e *Expr) int {
	switch e.Kind {
	case KTok:
		return 1
	case KRef:
		return d.minLen[e.NT]
	case KGroup:
		m := evInf
		for _, a := range e.Alts {
			if x := d.seqMin(a.Parts); x < m {
				m = x
			}
		}
		return m
	case KOpt, KMarker:
		return 0
	case KList:
		if e.Plus {
			return d.exprMin(e.Sub)
		}
		return 0
	}
	panic("bad kind")
}

// NullableListElement reports whether some list has an element (or is a separator-less list
// whose element) that can be empty: such a grammar has infinitely many derivations and is
// outside the property's domain.
func (g *Grammar) NullableListElement() bool {
	d := &evDeriver{g: g}
	d.prepare()
	bad := false
	g.walkExprs(func(e *Expr) {
		if e.Kind == KList && d.exprMin(e.Sub) == 0 {
			bad = true
		}
	})
	return bad
}

func (d *evDeriver) spend() bool {
	d.budget--
	if d.budget < 0 {
		d.overflow = true
		return false
	}
	return true
}

func (d *evDeriver) seq(parts []*Expr, i, j int) []evFrag {
	if len(parts) == 0 {
		if i == j {
			return []evFrag{{}}
		}
		return nil
	}
	if d.overflow {
		return nil
	}
	restMin := d.seqMin(parts[1:])
	firstMin := d.exprMin(parts[0])
	var out []evFrag
	for m := i; m <= j; m++ {
		if firstMin > m-i || restMin > j-m {
			continue
		}
		left := d.expr(parts[0], i, m)
		if len(left) == 0 {
			continue
		}
		right := d.seq(parts[1:], m, j)
		for _, l := range left {
			for _, r := range right {
				if !d.spend() {
					return nil
				}
				f := evFrag{syms: append(append([]*Node{}, l.syms...), r.syms...), parts: append([]Part{}, l.parts...)}
				for _, p := range r.parts {
					p.P += len(l.syms)
					p.Q += len(l.syms)
					f.parts = append(f.parts, p)
				}
				out = append(out, f)
			}
		}
	}
	return out
}

func (d *evDeriver) alt(a *Alt, arrow *Arrow, i, j int) []evFrag {
	frs := d.seq(a.Parts, i, j)
	if arrow == nil {
		return frs
	}
	out := make([]evFrag, len(frs))
	for k, f := range frs {
		out[k] = evFrag{syms: f.syms, parts: append(append([]Part{}, f.parts...), Part{Arrow: arrow, P: 0, Q: len(f.syms), TI: i, TJ: j})}
	}
	return out
}

func (d *evDeriver) expr(e *Expr, i, j int) []evFrag {
	switch e.Kind {
	case KTok:
		if j == i+1 && d.w[i] == e.Ch {
			return []evFrag{{syms: []*Node{{Tok: i, I: i, J: j}}}}
		}
		return nil
	case KRef:
		var out []evFrag
		for _, n := range d.nt(e.NT, i, j) {
			out = append(out, evFrag{syms: []*Node{n}})
		}
		return out
	case KGroup:
		var out []evFrag
		for _, a := range e.Alts {
			out = append(out, d.alt(a, a.Arrow, i, j)...)
		}
		return out
	case KMarker:
		// a state marker occupies no stack slot: not a symbol
		if i == j {
			return []evFrag{{}}
		}
		return nil
	case KOpt:
		out := d.expr(e.Sub, i, j)
		if i == j {
			// the absent optional: no symbol at all
			out = append(append([]evFrag{}, out...), evFrag{})
		}
		return out
	case KList:
		var out []evFrag
		for _, n := range d.list(e, i, j) {
			out = append(out, evFrag{syms: []*Node{n}})
		}
		return out
	}
	panic("bad kind")
}

func (d *evDeriver) nt(n, i, j int) []*Node {
	key := [3]int{n, i, j}
	if r, ok := d.ntMemo[key]; ok {
		return r
	}
	if d.inprog[key] {
		// X =>+ X over the same span: infinitely many derivation trees
		d.cyclic = true
		return nil
	}
	if d.minLen[n] > j-i {
		return nil
	}
	d.inprog[key] = true
	nt := d.g.NTs[n]
	var out []*Node
	for ai, a := range nt.Alts {
		arrow := a.Arrow
		if arrow == nil {
			arrow = nt.Default
		}
		// (an alternative with its own arrow under a category default is wrapped into the
		// category, which is never an event)
		for _, f := range d.alt(a, arrow, i, j) {
			out = append(out, &Node{Tok: -1, I: i, J: j, Syms: f.syms, Parts: f.parts, What: fmt.Sprintf("%s#%d", nt.Name, ai)})
		}
	}
	delete(d.inprog, key)
	d.ntMemo[key] = out
	return out
}

// list enumerates the instances of a list over [i, j). One iteration level is one rule
// application: `list: list elem`, `list: list sep elem`, `list: elem`, `list: %empty`.
func (d *evDeriver) list(e *Expr, i, j int) []*Node {
	if !e.Plus && i == j {
		return []*Node{{Tok: -1, I: i, J: j, What: "list-empty"}}
	}
	return d.chain(e, i, j)
}

// chain: list instances with at least one element.
func (d *evDeriver) chain(e *Expr, i, j int) []*Node {
	if i >= j || d.overflow {
		return nil
	}
	memo := d.listMemo[e]
	if memo == nil {
		memo = map[[2]int][]*Node{}
		d.listMemo[e] = memo
	}
	if r, ok := memo[[2]int{i, j}]; ok {
		return r
	}
	var out []*Node
	mk := func(prefix []*Node, f evFrag) {
		n := &Node{Tok: -1, I: i, J: j, What: "list-level"}
		n.Syms = append(append([]*Node{}, prefix...), f.syms...)
		for _, p := range f.parts {
			p.P += len(prefix)
			p.Q += len(prefix)
			n.Parts = append(n.Parts, p)
		}
		out = append(out, n)
	}
	starNoSep := !e.Plus && e.Sep == 0
	// first element
	for _, f := range d.expr(e.Sub, i, j) {
		if starNoSep {
			// list: list elem with the empty list underneath (list: %empty)
			mk([]*Node{{Tok: -1, I: i, J: i, What: "list-empty"}}, f)
		} else {
			mk(nil, f)
		}
	}
	// further elements
	for m := i + 1; m < j; m++ {
		prevs := d.chain(e, i, m)
		if len(prevs) == 0 {
			continue
		}
		start := m
		var sep []*Node
		if e.Sep != 0 {
			if d.w[m] != e.Sep {
				continue
			}
			sep = []*Node{{Tok: m, I: m, J: m + 1}}
			start = m + 1
		}
		if start >= j {
			continue
		}
		elems := d.expr(e.Sub, start, j)
		for _, prev := range prevs {
			for _, f := range elems {
				if !d.spend() {
					return nil
				}
				mk(append([]*Node{prev}, sep...), f)
			}
		}
	}
	memo[[2]int{i, j}] = out
	return out
}

// Trees returns the derivation trees of the token string w (one byte per token) from NTs[0].
// giveUp is set when the grammar is cyclic (X =>+ X) or the enumeration budget is exhausted;
// the result is then meaningless.
func (g *Grammar) Trees(w string) (trees []*Node, giveUp bool) { return g.TreesFrom(0, w) }

// TreesFrom is Trees for an arbitrary start nonterminal (a second %input).
func (g *Grammar) TreesFrom(nt int, w string) (trees []*Node, giveUp bool) {
	d := &evDeriver{g: g, w: []byte(w), ntMemo: map[[3]int][]*Node{}, inprog: map[[3]int]bool{}, listMemo: map[*Expr]map[[2]int][]*Node{}, budget: 20000}
	d.prepare()
	trees = d.nt(nt, 0, len(w))
	return trees, d.cyclic || d.overflow
}

// ---------------------------------------------------------------------------------------------
// events

// Token is one token of the input.
type Token struct {
	Ch       byte
	Off, End int
}

// Input is a tokenized text: letters are one-byte tokens, blanks are skipped.
type Input struct {
	Text string
	Toks []Token
}

// Tokenize splits text.
func Tokenize(text string) Input {
	in := Input{Text: text}
	for i := 0; i < len(text); i++ {
		if text[i] != ' ' {
			in.Toks = append(in.Toks, Token{Ch: text[i], Off: i, End: i + 1})
		}
	}
	return in
}

// Word is the token string.
func (in Input) Word() string {
	b := make([]byte, len(in.Toks))
	for i, t := range in.Toks {
		b[i] = t.Ch
	}
	return string(b)
}

// At is the start offset of token i, len(text) past the last token.
func (in Input) At(i int) int {
	if i < len(in.Toks) {
		return in.Toks[i].Off
	}
	return len(in.Text)
}

// Event is one expected listener call.
type Event struct {
	Type     string `json:"type"`
	Off      int    `json:"off"`
	End      int    `json:"end"`
	Shape    string `json:"shape,omitempty"`
	NoSyms   bool   `json:"nosyms,omitempty"`   // the part has no symbol at all
	NoTokens bool   `json:"notokens,omitempty"` // the part covers no token
	// Extends: fixWhitespace is off, the part has tokens and its end offset lies beyond the end
	// of its last token because it ends in an empty symbol (see package comment).
	Extends bool `json:"extends,omitempty"`
}

func (e Event) String() string { return fmt.Sprintf("%s[%d,%d)", e.Type, e.Off, e.End) }

type evSpan struct{ off, end int }

// evSpanOf applies the range rule to a run of symbols that starts at token position ti.
func evSpanOf(rs []evSpan, at int, fixWS bool) evSpan {
	if len(rs) == 0 {
		return evSpan{at, at}
	}
	q := len(rs)
	if fixWS {
		for q > 1 && rs[q-1].off == rs[q-1].end {
			q--
		}
	}
	return evSpan{rs[0].off, rs[q-1].end}
}

// Events lists the expected listener calls for one derivation tree and one spacing of the
// input. It also asserts the closed form of the rule for fixWhitespace ("first token start to
// last token end, parts without tokens at the next token") and panics if the compositional rule
// disagrees with it: that would be an error of this reference, not of the code under test.
func Events(root *Node, in Input, fixWS bool) []Event {
	var out []Event
	var sym func(n *Node) evSpan
	sym = func(n *Node) evSpan {
		if n.Tok >= 0 {
			return evSpan{in.Toks[n.Tok].Off, in.Toks[n.Tok].End}
		}
		rs := make([]evSpan, len(n.Syms))
		for k, s := range n.Syms {
			rs[k] = sym(s)
		}
		for _, p := range n.Parts {
			sp := evSpanOf(rs[p.P:p.Q], in.At(p.TI), fixWS)
			closed := evSpan{in.At(p.TI), in.At(p.TI)}
			if p.TJ > p.TI {
				closed.end = in.Toks[p.TJ-1].End
			}
			if fixWS && sp != closed {
				panic(fmt.Sprintf("extsem: compositional range %v != closed form %v for %s", sp, closed, p.Arrow.Name))
			}
			if sp.off != closed.off {
				panic(fmt.Sprintf("extsem: start offset %d is not the start of the first token %d", sp.off, closed.off))
			}
			if p.Arrow.Kind != NodeArrow {
				continue
			}
			out = append(out, Event{Type: p.Arrow.Name, Off: sp.off, End: sp.end, Shape: p.Arrow.Shape,
				NoSyms: p.P == p.Q, NoTokens: p.TI == p.TJ, Extends: sp.end != closed.end})
		}
		return evSpanOf(rs, in.At(n.I), fixWS)
	}
	sym(root)
	return out
}

// FlatPostOrder lists the node types of all reported arrows of the derivation ordered purely
// by nesting and position (an arrow precedes everything that starts after its last symbol).
func FlatPostOrder(root *Node) []string {
	var out []string
	var walk func(n *Node)
	walk = func(n *Node) {
		if n.Tok >= 0 {
			return
		}
		emit := func(p Part) {
			if p.Arrow.Kind == NodeArrow {
				out = append(out, p.Arrow.Name)
			}
		}
		for k := 0; k <= len(n.Syms); k++ {
			for _, p := range n.Parts {
				if p.P == p.Q && p.P == k {
					emit(p)
				}
			}
			if k < len(n.Syms) {
				walk(n.Syms[k])
				for _, p := range n.Parts {
					if p.P < p.Q && p.Q == k+1 {
						emit(p)
					}
				}
			}
		}
	}
	walk(root)
	return out
}

// Types projects events to their node types.
func Types(ev []Event) []string {
	out := make([]string, len(ev))
	for i, e := range ev {
		out[i] = e.Type
	}
	return out
}
