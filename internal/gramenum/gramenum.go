// Package gramenum enumerates small context-free grammars exhaustively and
// deterministically (simplest first), and converts them to lalr.Grammar values
// and to .tm text.
//
// Symbols are numbered as in lalr.Grammar: 0 = eoi, 1..T = terminals ('a'+i-1),
// T+1..T+N = nonterminals X1..XN.
package gramenum

import (
	"fmt"
	"strings"

	"github.com/inspirer/textmapper/lalr"
	"github.com/inspirer/textmapper/status"
)

// Rule is LHS -> RHS (symbol numbers as above).
type Rule struct {
	LHS int
	RHS []int
}

// Gram is a plain CFG.
type Gram struct {
	T, N  int // number of terminals (without eoi) and nonterminals
	Rules []Rule
}

// Scope bounds an enumeration.
type Scope struct {
	N, T, R, K int  // exactly N nonterminals, T terminals, up to R rules, RHS length <= K
	MinR       int  // at least MinR rules (default 1)
	Reduced    bool // keep only grammars where every nonterminal is reachable from X1 and productive
	AllNTs     bool // every nonterminal must have >=1 rule (implied by Reduced)
}

// Universe lists every possible rule for the scope in canonical order:
// by RHS length, then LHS, then RHS lexicographically (terminals before nonterminals).
func Universe(s Scope) []Rule {
	var out []Rule
	nsym := s.T + s.N
	for k := 0; k <= s.K; k++ {
		total := 1
		for i := 0; i < k; i++ {
			total *= nsym
		}
		for lhs := s.T + 1; lhs <= s.T+s.N; lhs++ {
			for code := 0; code < total; code++ {
				rhs := make([]int, k)
				x := code
				for i := k - 1; i >= 0; i-- {
					rhs[i] = 1 + x%nsym
					x /= nsym
				}
				out = append(out, Rule{lhs, rhs})
			}
		}
	}
	return out
}

// Enumerate calls f for every rule set (as an ordered list in universe order)
// with MinR..R rules that passes the scope's filters and terminal symmetry
// breaking (terminals must first occur in increasing order). Order: by number
// of rules, then lexicographic in universe indices. f returns false to stop.
// The *Gram passed to f is reused between calls (copy to keep it).
func Enumerate(s Scope, f func(idx int, g *Gram) bool) int {
	uni := Universe(s)
	minR := s.MinR
	if minR < 1 {
		minR = 1
	}
	idx := 0
	g := &Gram{T: s.T, N: s.N}
	sel := make([]int, 0, s.R)
	stop := false
	var rec func(start, need int)
	rec = func(start, need int) {
		if stop {
			return
		}
		if need == 0 {
			g.Rules = g.Rules[:0]
			for _, u := range sel {
				g.Rules = append(g.Rules, uni[u])
			}
			if !TermCanonical(g) {
				return
			}
			if s.Reduced {
				if !IsReduced(g) {
					return
				}
			} else if s.AllNTs && !allDefined(g) {
				return
			}
			if !f(idx, g) {
				stop = true
			}
			idx++
			return
		}
		for u := start; u <= len(uni)-need; u++ {
			sel = append(sel, u)
			rec(u+1, need-1)
			sel = sel[:len(sel)-1]
			if stop {
				return
			}
		}
	}
	for r := minR; r <= s.R && !stop; r++ {
		rec(0, r)
	}
	return idx
}

// TermCanonical: terminals first occur in increasing order (a before b before c).
func TermCanonical(g *Gram) bool {
	next := 1
	for _, r := range g.Rules {
		for _, s := range r.RHS {
			if s <= g.T {
				if s > next {
					return false
				}
				if s == next {
					next++
				}
			}
		}
	}
	return true
}

func allDefined(g *Gram) bool {
	def := make([]bool, g.T+g.N+1)
	for _, r := range g.Rules {
		def[r.LHS] = true
	}
	for nt := g.T + 1; nt <= g.T+g.N; nt++ {
		if !def[nt] {
			return false
		}
	}
	return true
}

// Productive returns, per symbol, whether it derives some terminal string.
func Productive(g *Gram) []bool {
	p := make([]bool, g.T+g.N+1)
	for t := 0; t <= g.T; t++ {
		p[t] = true
	}
	for changed := true; changed; {
		changed = false
		for _, r := range g.Rules {
			if p[r.LHS] {
				continue
			}
			ok := true
			for _, s := range r.RHS {
				if !p[s] {
					ok = false
					break
				}
			}
			if ok {
				p[r.LHS] = true
				changed = true
			}
		}
	}
	return p
}

// Reachable returns the symbols reachable from the given start nonterminals.
func Reachable(g *Gram, starts ...int) []bool {
	r := make([]bool, g.T+g.N+1)
	var stack []int
	for _, s := range starts {
		if !r[s] {
			r[s] = true
			stack = append(stack, s)
		}
	}
	for len(stack) > 0 {
		x := stack[len(stack)-1]
		stack = stack[:len(stack)-1]
		for _, rule := range g.Rules {
			if rule.LHS != x {
				continue
			}
			for _, s := range rule.RHS {
				if !r[s] {
					r[s] = true
					if s > g.T {
						stack = append(stack, s)
					}
				}
			}
		}
	}
	return r
}

// IsReduced: every nonterminal is defined, productive and reachable from X1.
func IsReduced(g *Gram) bool {
	if !allDefined(g) {
		return false
	}
	p := Productive(g)
	r := Reachable(g, g.T+1)
	for nt := g.T + 1; nt <= g.T+g.N; nt++ {
		if !p[nt] || !r[nt] {
			return false
		}
	}
	return true
}

// Clone deep-copies g.
func (g *Gram) Clone() *Gram {
	out := &Gram{T: g.T, N: g.N, Rules: make([]Rule, len(g.Rules))}
	for i, r := range g.Rules {
		out.Rules[i] = Rule{r.LHS, append([]int{}, r.RHS...)}
	}
	return out
}

// SymName returns the printable name of a symbol.
func (g *Gram) SymName(s int) string {
	switch {
	case s == 0:
		return "eoi"
	case s <= g.T:
		return "t" + string(rune('a'+s-1))
	default:
		return fmt.Sprintf("X%d", s-g.T)
	}
}

// TermChar is the input character of terminal s (1..T).
func TermChar(s int) byte { return byte('a' + s - 1) }

func (g *Gram) String() string {
	var sb strings.Builder
	for i, r := range g.Rules {
		if i > 0 {
			sb.WriteString("; ")
		}
		sb.WriteString(g.SymName(r.LHS))
		sb.WriteString(":")
		if len(r.RHS) == 0 {
			sb.WriteString(" %empty")
		}
		for _, s := range r.RHS {
			sb.WriteString(" ")
			sb.WriteString(g.SymName(s))
		}
	}
	return sb.String()
}

// Input selects a start nonterminal.
type Input struct {
	NT  int  // symbol number
	Eoi bool
}

// Origin is a synthetic source node: Offset encodes what it stands for
// (rule index, or -1 for the grammar itself).
type Origin struct{ Index int }

func (o Origin) SourceRange() status.SourceRange {
	return status.SourceRange{Filename: "g", Offset: o.Index + 1, EndOffset: o.Index + 1, Line: o.Index + 2, Column: 1}
}

// ToLalr builds the lalr.Grammar for g with the given inputs.
func (g *Gram) ToLalr(inputs []Input) *lalr.Grammar {
	out := &lalr.Grammar{Terminals: g.T + 1, Origin: Origin{-1}}
	for s := 0; s <= g.T+g.N; s++ {
		out.Symbols = append(out.Symbols, g.SymName(s))
	}
	for _, in := range inputs {
		out.Inputs = append(out.Inputs, lalr.Input{Nonterminal: lalr.Sym(in.NT), Eoi: in.Eoi})
	}
	for i, r := range g.Rules {
		rhs := make([]lalr.Sym, len(r.RHS))
		for j, s := range r.RHS {
			rhs[j] = lalr.Sym(s)
		}
		out.Rules = append(out.Rules, lalr.Rule{LHS: lalr.Sym(r.LHS), RHS: rhs, Action: i, Type: -1, Origin: Origin{i}})
	}
	return out
}

// InputConfigs returns the input configurations explored with every grammar
// (DESIGN §2.1): X1; X1 no-eoi; X1,X2; X1,X1 no-eoi; X2 no-eoi,X1.
func InputConfigs(g *Gram) [][]Input {
	x1 := g.T + 1
	cfgs := [][]Input{
		{{x1, true}},
		{{x1, false}},
		{{x1, true}, {x1, false}},
	}
	if g.N >= 2 {
		x2 := g.T + 2
		cfgs = append(cfgs, []Input{{x1, true}, {x2, true}}, []Input{{x2, false}, {x1, true}})
	}
	return cfgs
}

// AllStrings calls f for every terminal string of length <= L over terminals
// 1..T, shortest first, as a string of TermChar bytes.
func AllStrings(T, L int, f func(w string)) {
	buf := make([]byte, 0, L)
	var rec func(n int)
	for n := 0; n <= L; n++ {
		rec = func(k int) {
			if k == 0 {
				f(string(buf))
				return
			}
			for t := 1; t <= T; t++ {
				buf = append(buf, TermChar(t))
				rec(k - 1)
				buf = buf[:len(buf)-1]
			}
		}
		rec(n)
	}
}

// TMOpts controls ToTM.
type TMOpts struct {
	Name    string   // package scratch/<Name>
	Options []string // extra option lines, e.g. `optimizeTables = true`
	Events  bool     // annotate every rule with -> R<ruleIndex> (eventBased = true is added)
	Space   bool     // add a (space) rule for ' '
	Parser  string   // text after ":: parser" on the same line, e.g. "lalr(2)"
	Extra   string   // extra parser-section text placed before the rules
}

// ToTM prints g as a textmapper grammar for the Go target. Terminals are one-letter lexer
// rules (ta: /a/), so a token sequence is a string. Rules are grouped by nonterminal in
// order of first appearance; RuleOrder returns the resulting order (tm rule index -> index in g.Rules).
func (g *Gram) ToTM(inputs []Input, o TMOpts) string {
	var sb strings.Builder
	fmt.Fprintf(&sb, "language %s(go);\n\npackage = \"scratch/%s\"\n", o.Name, o.Name)
	if o.Events {
		sb.WriteString("eventBased = true\n")
	}
	for _, l := range o.Options {
		sb.WriteString(l)
		sb.WriteString("\n")
	}
	sb.WriteString("\n:: lexer\n\n")
	if o.Space {
		sb.WriteString("WhiteSpace: /[ ]+/ (space)\n")
	}
	for t := 1; t <= g.T; t++ {
		fmt.Fprintf(&sb, "%s: /%c/\n", g.SymName(t), TermChar(t))
	}
	fmt.Fprintf(&sb, "\n:: parser %s\n\n%%input ", o.Parser)
	for i, in := range inputs {
		if i > 0 {
			sb.WriteString(", ")
		}
		sb.WriteString(g.SymName(in.NT))
		if !in.Eoi {
			sb.WriteString(" no-eoi")
		}
	}
	sb.WriteString(";\n\n")
	sb.WriteString(o.Extra)
	for _, nt := range g.NTOrder() {
		fmt.Fprintf(&sb, "%s :\n", g.SymName(nt))
		first := true
		for i, r := range g.Rules {
			if r.LHS != nt {
				continue
			}
			if first {
				sb.WriteString("    ")
				first = false
			} else {
				sb.WriteString("  | ")
			}
			if len(r.RHS) == 0 {
				sb.WriteString("%empty")
			}
			for j, s := range r.RHS {
				if j > 0 {
					sb.WriteString(" ")
				}
				sb.WriteString(g.SymName(s))
			}
			if o.Events {
				fmt.Fprintf(&sb, " -> R%d", i)
			}
			sb.WriteString("\n")
		}
		sb.WriteString(";\n\n")
	}
	return sb.String()
}

// NTOrder lists the defined nonterminals in order of their first rule.
func (g *Gram) NTOrder() []int {
	var out []int
	seen := map[int]bool{}
	for _, r := range g.Rules {
		if !seen[r.LHS] {
			seen[r.LHS] = true
			out = append(out, r.LHS)
		}
	}
	return out
}

// WithMarker returns the lalr.Grammar of g in which a state marker (".m") is inserted into
// rule `rule` before RHS position `pos` (pos == len(RHS) puts it at the end). State markers do
// not count towards the rule length and must not influence parsing.
func (g *Gram) WithMarker(inputs []Input, rule, pos int) *lalr.Grammar {
	lg := g.ToLalr(inputs)
	lg.Markers = []string{"m"}
	rhs := lg.Rules[rule].RHS
	out := make([]lalr.Sym, 0, len(rhs)+1)
	out = append(out, rhs[:pos]...)
	out = append(out, lalr.Marker(0))
	out = append(out, rhs[pos:]...)
	lg.Rules[rule].RHS = out
	return lg
}
