#!/bin/bash
# ./run mutants [Cxx]: for every mutants/<ID>-*.patch: apply it to a scratch worktree of /repo,
# (optionally, MUT_TESTS=1) run the repository's own tests of the touched packages, run the
# property's quick check against the worktree and expect a VIOLATION line. /repo is not touched.
cd "$(dirname "$0")/.."
filter="${1:-}"
rc=0
for p in mutants/${filter}*.patch; do
  [ -e "$p" ] || continue
  id="$(basename "$p" | cut -d- -f1)"
  wt="$(mktemp -d /tmp/mut-XXXXXX)"; rmdir "$wt"
  git -C /repo worktree add -q --detach "$wt" HEAD >/dev/null 2>&1 || { echo "worktree failed"; exit 2; }
  # carry over uncommitted changes of /repo (normally none)
  if ! git -C "$wt" apply "$PWD/$p" 2>/tmp/mut-apply.err; then
    echo "MUTANT $p: does not apply: $(head -1 /tmp/mut-apply.err)"; rc=1
  else
    tests="skipped"
    if [ "${MUT_TESTS:-0}" = 1 ]; then
      pk=$(git -C "$wt" diff --name-only | xargs -n1 dirname | sort -u | sed 's#^#./#' | tr '\n' ' ')
      if (cd "$wt" && GOFLAGS=-mod=mod go test -vet=off -count=1 ./... >/tmp/mut-tests.log 2>&1); then tests="pass"; else tests="FAIL"; fi
    fi
    out="$(VERIF_REPO="$wt" VERIF_BUDGET_S=${MUT_BUDGET_S:-150} ./run "$id" quick 2>&1)"; code=$?
    if [ $code -eq 1 ] && echo "$out" | grep -q "^VIOLATION property=$id"; then
      echo "MUTANT $p: caught (repo tests: $tests) :: $(echo "$out" | grep -m1 '^VIOLATION' | cut -c1-200)"
    else
      echo "MUTANT $p: MISSED exit=$code (repo tests: $tests)"; rc=1
      echo "$out" | tail -3
    fi
  fi
  git -C /repo worktree remove --force "$wt"
  rm -rf "bin/alt-$(echo "$wt" | sha1sum | cut -c1-10)"
done
exit $rc
