#!/usr/bin/env python3
import json, os, sys
here = os.path.dirname(os.path.abspath(__file__))
root = os.path.dirname(here)
sys.path.insert(0, here)
from checks import CHECKS, NOT_APPLICABLE_REASON
props = [json.loads(l) for l in open(os.path.join(root, 'properties.jsonl'))]
checks, na = [], []
for p in props:
    pid = p['id']
    d = CHECKS.get(pid)
    if d and os.path.isdir(os.path.join(root, 'cmd', pid.lower())):
        checks.append({
            "property_id": pid,
            "quick_cmd": f"./run {pid} quick",
            "thorough_cmd": f"./run {pid} thorough",
            "evidence_file": f"/verif/evidence/{pid}.json",
            "replay_cmd_template": "./run replay {path}",
            "engine": d.get("engine", "vcheck"),
            "level_claimed": {"category": d["category"], "text": d["text"], "design_ref": d.get("design", "")},
            "level_note": d["note"] + " The enumerated scope was extended by explicit families during the seeding campaign (DESIGN.md §12.5); the evidence file's `rule` text describes exactly what a run enumerated.",
            "technique": d["technique"],
        })
    else:
        na.append({"property_id": pid, "reason": NOT_APPLICABLE_REASON.get(pid, "check not built yet (work in progress); model checking applies, see DESIGN.md §5." + pid)})
hooks_commits = []
hc = os.path.join(root, 'hooks_commits.txt')
if os.path.exists(hc):
    hooks_commits = [l.split()[0] for l in open(hc) if l.strip()]
m = {
    "version": 1,
    "setup_cmd": "./run setup",
    "hooks": {
        "guard": "verif",
        "enable": "go build -tags verif (only the C23 harness needs the hooks; see DESIGN.md §1)",
        "baseline_off_cmd": "cd /repo && GOFLAGS=-mod=mod go test -vet=off -count=1 -timeout 25m ./...",
        "source_commits": hooks_commits,
        "add_only": True,
    },
    "engines": [
        {"name": "vcheck", "path": "/verif/cmd", "serves_properties": [c["property_id"] for c in checks],
         "kind_free_text": "hand-written bounded exhaustive enumerators / explicit-state explorers in Go, one binary per property, shared plumbing in internal/core"},
    ],
    "checks": checks,
    "not_applicable": na,
    "notes": "All checks rebuild from /repo's working tree via the go.mod replace directive. See DESIGN.md.",
}
json.dump(m, open(os.path.join(root, 'MANIFEST.json'), 'w'), indent=1)
print(f"claimed={len(checks)} not_applicable={len(na)}")
