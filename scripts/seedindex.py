#!/usr/bin/env python3
# regenerates seeded/INDEX.md from seeded/*/meta.json
import json, glob, os
rows = []
for m in sorted(glob.glob('/verif/seeded/*/meta.json')):
    d = json.load(open(m))
    rows.append((os.path.basename(os.path.dirname(m)), d['property'], d['caught_by'], d['needs_to_manifest']))
out = ["# Seeded property-breaking changes", "",
       "Each directory holds `patch.diff` (applies to /repo with `git apply`), the demonstration test (`demo_test.go.txt`), and `meta.json`.",
       "Every change compiles, keeps the repository's full test suite green and was confirmed with `scripts/seedverify.sh` in a scratch worktree",
       "(demo fails with the change, passes without). `caught by` names the check whose quick tier reports a VIOLATION with the change applied.",
       "Suffixes A/B: first round, E/F: third round (asked for option interactions, rare grammar features, template-level changes, repeated use, larger sizes) (one fresh sub-agent per property), C/D: second round (another fresh sub-agent per property, asked for less obvious mechanisms:",
       "state carried between uses, one of two cooperating sites, unused option combinations, size boundaries); `notes.md` is the seeder's own description.", "",
       "| seed | property | caught by | needs, in order to manifest |", "|---|---|---|---|"]
for r in rows:
    needs = r[3].replace('|', '/').replace('\n', ' ')[:500]
    out.append(f"| {r[0]} | {r[1]} | {r[2]} | {needs} |")
missed = [r for r in rows if r[2] == 'MISSED']
out += ["", f"{len(rows)} changes, {len(rows)-len(missed)} caught, {len(missed)} not caught."]
open('/verif/seeded/INDEX.md', 'w').write('\n'.join(out) + '\n')
print(out[-1])
