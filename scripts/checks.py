# Per-property manifest data. mkmanifest.py turns this into MANIFEST.json; a property is
# claimed only if cmd/<id>/ exists, otherwise it is listed under not_applicable ("not built yet").
CHECKS = {
 "C26": dict(
  category="exploration",
  technique="bounded exhaustive enumeration of all digraphs (n<=4, n=5 thorough) against Floyd-Warshall reference",
  text="Every directed graph with <=4 vertices (self-loops, 3 adjacency orders, multigraphs n<=3; n=5 without self-loops in thorough) is run through Tarjan, Transpose, Matrix.Closure/Graph and LongestPath and compared with a boolean Floyd-Warshall reference: component partition = mutual reachability, reverse topological report order, closure = reachable pairs, transpose = edge multiset reversal, longest path nil iff cyclic and of DP-maximal length. Complete within the stated vertex bound.",
  note="Nothing beyond n<=5 vertices is claimed; reference is 30 lines of boolean matrix code.",
  design="§5.C26"),
}
NOT_APPLICABLE_REASON = {}
