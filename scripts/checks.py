# Per-property manifest data. mkmanifest.py turns this into MANIFEST.json; a property is
# claimed only if cmd/<id>/ exists, otherwise it is listed under not_applicable ("not built yet").
CHECKS = {
 "C26": dict(
  category="exploration",
  technique="bounded exhaustive enumeration of all digraphs (n<=4, n=5 thorough) against Floyd-Warshall reference",
  text="Every directed graph with <=4 vertices (self-loops, 3 adjacency orders, multigraphs n<=3; n=5 without self-loops in thorough) is run through Tarjan, Transpose, Matrix.Closure/Graph and LongestPath and compared with a boolean Floyd-Warshall reference: component partition = mutual reachability, reverse topological report order, closure = reachable pairs, transpose = edge multiset reversal, longest path nil iff cyclic and of DP-maximal length. Complete within the stated vertex bound.",
  note="Nothing beyond n<=5 vertices is claimed; reference is 30 lines of boolean matrix code.",
  design="§5.C26"),
}
CHECKS.update({
 "C01": dict(
  category="model_checking",
  technique="bounded exhaustive enumeration of grammars x input configs x table options x all token strings; explicit-state run of the table-driven parser vs a CFG language oracle",
  text="Layer A: every reduced grammar of the scope (<=2-3 nonterminals, 2-3 terminals, <=4-5 rules, RHS<=2-3) x 5 input configurations (eoi/no-eoi, several inputs) x 6 subsets of optimizeTables/defaultReduce/minimizeDFA that lalr.Compile accepts without conflicts is run on EVERY token string of length<=5 through a line-by-line transcription of the generated parser loop; accept/reject, consumed prefix for no-eoi inputs and the error token index must equal a dynamic-programming CFG oracle (Lang_L, viable prefixes); non-termination is detected by exact configuration repeat. Layer B (generated Go code, real lexer+parser built with go build) binds the transcription to the templates.",
  note="Complete within the stated scope and L; the interpreter is a model of go_parser.go.tmpl validated against generated code by Layer B (traces_validated_against_impl). Grammars with precedence, lookaheads, lalr(k), recovery are C04/C08/C07/C19.",
  design="§5.C01"),
 "C03": dict(
  category="exploration",
  technique="bounded exhaustive enumeration of grammars; state-by-state comparison with an independent canonical LR(1)-merge reference construction",
  text="Every rule set of the scope (raw: unreachable, unproductive, undefined, cyclic and nullable nonterminals included) x 5 input configurations x %expect variations is compiled with lalr.Compile and compared with a textbook LALR(1) automaton (LR(1) item sets merged by kernel): isomorphic state graphs from every input state, final states, LR(0) shortcut only where the statement allows it, every (state, terminal) action, exact SR/RR counts, error iff counts differ from expectations, and exactly the conflicting rules named in the diagnostics.",
  note="Reference shares no algorithm with lalr/compile.go (DeRemer-Pennello over goto transitions). Precedence resolution is C04. One lenient spot: an input state may consult lookahead where the LR(0) shortcut would be permitted (counted in evidence).",
  design="§5.C03"),
 "C05": dict(
  category="exploration",
  technique="bounded exhaustive enumeration of grammars; every (state, symbol) cell decoded from both encodings and compared",
  text="For every rule set of the scope (conflicting grammars included) x input configurations x precedence variants with %nonassoc x defaultReduce x minimizeDFA, plus scaled families (wide/chain/expr up to 24 terminals), every (state, terminal) action, every defined (state, nonterminal) goto and every terminal gotoState is decoded from the displacement encoding with the template's lookup code and compared with the default encoding; with defaultReduce only 'plain error -> the state's most frequent reduction' is allowed, %nonassoc errors must stay errors and nothing may become a shift.",
  note="Decode functions are transcriptions of the six-line lookups in go_parser.go.tmpl (bound to the template by C01 Layer B).",
  design="§5.C05"),
 "C06": dict(
  category="model_checking",
  technique="bounded exhaustive enumeration of grammars x input configs; lock-step product exploration of the unminimized and minimized parser automata on all token strings",
  text="Every rule set of the scope (conflicting grammars included) x 4-8 input configurations (several inputs, no-eoi, duplicated no-eoi inputs as created by synthetic lookahead inputs) x rule attributes {all distinct, all equal} x optimizeTables is compiled with MinimizeDFA off and on; both table sets are run from every input index (the entry state the generated Parse functions use) on every token string <= L in lock-step: same shifts, reductions of rules with equal (lhs, length, action, type), same accept/error outcome and position, same non-termination.",
  note="Traces come from internal/tabinterp (transcription of the parser template, validated against generated code by C01 Layer B).",
  design="§5.C06"),
 "C04": dict(
  category="exploration",
  technique="bounded exhaustive enumeration of operator grammars x precedence declarations x %prec markers; documented resolution rule applied to reference-LALR(1) cells; lock-step parse of all inputs",
  text="(a) every subset (<=3) of operator rule shapes {E p E, E q E, p E, E p, E p E q E} over atom x x every assignment of x,p,q to {none, group 1, group 2} x every associativity per group x every %prec marker per rule, (b) every raw rule set of the tiny scope x every precedence declaration over its terminals: each lookahead-dependent cell of lalr.Compile's tables must equal the documented rule (rule precedence = %prec terminal else last terminal; higher wins; equal: left reduces, right shifts, nonassoc errors; undecided SR -> reported + shift; undecided RR -> reported + earlier rule) applied to the candidate actions of the reference LALR(1) automaton; SR/RR counts and error status exact; a reference LR parser driven by the documented resolutions is run in lock-step with the implementation tables on every input <= L (5 quick / 7 thorough). Layer B: operator-family cases (80 quick / 3,000 thorough) are printed as .tm text with %left/%right/%nonassoc, %prec and %expect values taken from the documented rule, generated, built and run on every input <= 5: the generated parser's reduction sequence, verdict and error offset must equal the documented-resolution parser's.",
  note="Cells with a shift and several reductions (statement silent on how pairwise decisions combine) are only required to pick a candidate or error, and counts are not compared for grammars containing such a cell (counted in evidence).",
  design="§5.C04"),
 "C07": dict(
  category="exploration",
  technique="bounded exhaustive enumeration of conflict families and tiny grammars x k=1..8; all token strings through the table interpreter (incl. deep-lookahead loop) vs CFG oracle",
  text="A family of grammars whose reduce/reduce conflicts need 2..4 tokens (S: A u x | B u y, A: w, B: w for all words w,u over {a,b}; variants with a shared suffix nonterminal, a nullable symbol in the suffix, two conflicts sharing the lookahead automaton; eoi and no-eoi inputs) and every reduced grammar of the tiny scope are compiled with lalr(k), k=1..8 (2,3 for the tiny scope); for every successful compile every token string <= L (6/7) is parsed with the interpreter (transcription of parseFunc + resolveDeepLA) and accept/reject compared with the CFG oracle; UsedLADepth <= k.",
  note="Compile errors are outside the property (it constrains successful compiles). Layer B: family grammars whose compile uses deep lookahead (60 quick / 1,500 thorough) are generated with ':: parser lalr(k)', built and run on every string <= 5: verdict vs the CFG oracle and reduction sequence vs the interpreter (binds the transcription of resolveDeepLA to the template).",
  design="§5.C07"),
 "C08": dict(
  category="exploration",
  technique="exhaustive enumeration of all lookahead-alternative sets (n<=3/4 over m<=3 predicates) x all 2^m truth assignments against the emitted decision list",
  text="Every combination of n alternatives drawn from all ordered conjunctions of distinct possibly-negated predicates over m<=3 predicates is placed in one parser state of a host grammar and compiled with lalr.Compile; for accepted sets the emitted decision list (Cases/DefaultTarget, evaluated as the generated lookaheadRule does) must select, for every truth assignment satisfying exactly one alternative, that alternative; accepted sets must be mutually exclusive and consistently ordered (brute-force witness search).",
  note="Sets that are exclusive and consistently ordered but rejected by the compiler are counted as incompleteness, not violations (the statement constrains accepted sets and requires rejection of bad ones). Generated-code evaluation of the list (template) is covered by reading Cases in the same order the template ranges over them.",
  design="§5.C08"),
 "C25": dict(
  category="exploration",
  technique="exhaustive enumeration of finite/co-finite sets and set-equation systems vs bitmask reference with Kleene iteration",
  text="All ordered pairs of finite/co-finite subsets of {0..u-1} (u<=5 quick / 6 thorough) through Merge/Intersect/Complement/Equals with 7 reuse-buffer variants (incl. aliasing either operand where in-place filtering is permitted); every set-equation system buildable through util/set's API with <=3 nodes over {0,1,2}, 4 nodes over {0,1}, and expression systems up to 7 nodes, each solved with several scratch-buffer sizes: result must equal the least solution by SCC-wise Kleene iteration over bitmasks with an 'every other integer' bit; error iff a complement reaches itself.",
  note="Reference is a 64-bit mask model; aliasing patterns the API does not promise are recorded as hazard outcome classes, not violations.",
  design="§5.C25"),
 "C27": dict(
  category="exploration",
  technique="exhaustive enumeration of text pairs; unified-diff parser/applier + LCS dynamic programming",
  text="All ordered pairs of texts with <=4 lines over {a,b,c} and <=6 over {a,b} (quick; <=5/<=7 thorough) with/without trailing newline, periodic texts, and a long-run family (runs of 13..20 equal/deleted/inserted lines, up to 3-7 runs) through diff.LineDiff: the rendered diff is parsed strictly (hunk order, header line numbers and sizes, context lines), applied to the first text and must yield the second; the number of +/- lines must equal |a|+|b|-2*LCS; empty iff equal.",
  note="Only LineDiff is exported, so the edit script is observed through the rendered text. Two known findings about the '... N lines skipped ...' abbreviation are listed in known_findings.json (by-design elision; header size counts the marker).",
  design="§5.C27"),
 "C09": dict(
  category="exploration",
  technique="bounded exhaustive enumeration of lexer rule sets (regex ASTs by size) x all inputs x start conditions vs a Brzozowski-derivative reference matcher",
  text="Rule sets of <=3 rules, each a regex AST of <=4 nodes over atoms {a,b,[ab],.} (+ byte-mode atoms) with * + ? {1,2} |, named patterns, {eoi}, relative priorities, start-condition subsets of {0,1}, fold on/off, byte mode on/off, enumerated by size; for every set lex.Compile accepts, every text over {a,b,c,A,e-acute,\\xff} up to length 4 (5 thorough) in every start condition is scanned with Tables.Scan and compared with the statement's rule (longest non-empty match, highest-priority rule, fallback to the last accepted position, else invalid token spanning the longest live prefix) computed by an independent derivative matcher; compile errors (empty match, identical rules) compared too.",
  note="Where the statement is silent (malformed byte in rune mode = U+FFFD one byte wide; {eoi} as zero-width pseudo symbol; byte-mode literals above 0x7f mean their UTF-8 bytes) the reference follows the implementation, documented in internal/rxref. An internal 60 s / 15 min deadline caps the last enumeration level on a loaded machine (reported as exhaustive:false).",
  design="§5.C09"),
 "C24": dict(
  category="exploration",
  technique="bounded exhaustive enumeration of byte-mode rule sets x all byte strings <=4; shift-DFA scanner vs lexer tables",
  text="Rule sets of <=3 rules of <=4 nodes over 14 byte-mode atoms (incl. [\\x80-\\xbf], [\\xc0-\\xff], \\xe9, [^a]) with relative priorities; for every set shiftdfa's packer accepts, every byte string of length <=4 over {a,b,0x7f,0x80,0xbf,0xc3,0xff} is scanned by the shift-DFA scanner and by lex.Tables.Scan on tables compiled from the same rules: length and token must agree.",
  note="Tables are rebuilt from the same rules exactly as shiftdfa.Compile does (it does not export them).",
  design="§5.C24"),
 "C12": dict(
  category="exploration",
  technique="bounded exhaustive enumeration of byte strings and of all 1-/2-edit mutations of malformed seed texts through the shipped lexers; tiling/progress/line oracle",
  text="Seven shipped lexer configurations (tm, js in three dialects, json, test, simple): every byte string of length <=4 (<=6 thorough) over a 14-byte per-lexer alphabet of interesting bytes, with and without BOM, plus all 1- and 2-edit mutations of 4-8 malformed seed texts (unterminated comment/string/template/regex/code block, BOM+text): Next() reaches EOI within 4*len+8 calls and repeats it, every other token non-empty, tokens in source order without overlap, gaps are exactly whitespace-rule text (after an optional BOM), Line()/Column() = position of the first byte.",
  note="Generated lexers of enumerated grammars are covered by C11 (same tiling oracle there). Space-rule recognisers are transcribed by hand from each .tm file (justified in internal/shipped).",
  design="§5.C12"),
 "C20": dict(
  category="model_checking",
  technique="exhaustive enumeration of all well-nested event streams (<=5/6 nodes) into the real tree builder vs reference tree; shipped parsers on exhaustive short inputs and seed mutations",
  text="(a) 14 shipped event-parser configurations (tm, js, json, test; recovering and not): on every byte string <=4 (5 thorough) and 1-/2-edit seed mutations every reported node lies in [0,len], no two nodes partially overlap and no earlier-reported node strictly contains a later one. (b) every event stream satisfying (a) with <=5 nodes over offsets 0..3 (<=6 over 0..4 thorough), incl. empty and equal ranges, is fed to the unexported builder of parsers/tm/ast through an overlay-added in-package test driver and the resulting tree (parents, sibling order, Next/Child links, node multiset) compared with the reference tree (parent = first later-reported container). (c) tm/ast.Parse and js/ast.Parse compared end to end with the reference tree of their own event streams.",
  note="The in-package driver is ADDED via go test -overlay (no repo file replaced). states = distinct builder stack configurations, transitions = events fed.",
  design="§5.C20"),
 "C02": dict(
  category="exploration",
  technique="bounded exhaustive enumeration of annotated extended-notation grammars x all sentences x all blank patterns through generated parsers vs a denotational reference",
  text="Annotated grammars are enumerated from a shape language (weight<=6: rule-level, nested, optional, choice, list, separated-list, empty-range and default arrows over <=2 nonterminals and terminals a,b,c; 49 arrow-shape classes visited round-robin, simplest first), generated with the real compiler and templates, built, and run on every sentence <=4 tokens in all 2^(n+1) blank patterns, with fixWhitespace on and off; the listener's event sequence (type, offset, endoffset) must equal the post-order (reduce-order) list of annotated parts of the unique derivation computed by an independent evaluator with the documented range rule. The plain-CFG fragment (gramenum, every rule annotated) is cross-checked against a second tree enumerator.",
  note="Build cost bounds the number of generated grammars per run (budgeted prefix of the enumeration, reported as exhaustive:false). Without fixWhitespace a part ending in an empty symbol extends to the next token: the statement is silent, implementation followed and counted.",
  design="§5.C02"),
 "C10": dict(
  category="exploration",
  technique="exhaustive enumeration of all pattern strings <=5/6 over a meta alphabet plus escape skeletons x fold x byte mode; independent reference parser and exact membership comparison",
  text="Every string of length <=5 (6 thorough) over a 19-character meta alphabet and ~80k escape-skeleton patterns (\\xHH, \\uHHHH, \\UHHHHHHHH, \\x{..}, octal, \\p{..}, negated/subtracted classes, (?i), {m,n}, with hex digits from {0,9,a,F,G,z}) in all four fold x byte modes: accept/reject must agree with an independent recursive-descent parser of the documented syntax, error offsets lie within the pattern, and for accepted patterns the language (all words <=3 over an exact probe alphabet cut at every range boundary of either side, plus power words) must equal the reference denotation. For every name in unicode.Categories/Scripts/Properties and the Perl classes: the class alone, negated and subtracted, with and without fold, compared at every range boundary (every code point in thorough).",
  note="Corners documented nowhere (dash in the middle of a bracket class, undocumented (?...) spellings, case folding of a standalone class escape) are counted as unspecified and only checked for crashes.",
  design="§5.C10"),
 "C18": dict(
  category="model_checking",
  technique="exhaustive single-deviation exploration of Go map iteration order through a GOROOT overlay seam, plus all generation histories <=2/3 across processes and GOMAXPROCS",
  text="The C18 binary is built with an overlay of internal/runtime/maps (iteration offsets and hash seed taken from a seam): run 0 uses offset 0 everywhere; then for every k-th map iteration performed while compiling+generating a grammar and every other start offset (all 7 for single-group maps = every order the runtime can produce; rotations for table-backed maps) one generation in which only that iteration deviates must give byte-identical output. 15 grammars (5 shipped + 10 feature grammars). All histories of <=2 (3 thorough) generations in one process, fresh processes, GOMAXPROCS 1/2/16, and equality with the committed generated files of the shipped grammars.",
  note="Maps with >8 entries are explored per pinned hash seed only (other seeds sampled by free-running runs); simultaneous deviations only as pairs for two small grammars in thorough. If the overlay cannot be built the check falls back to 32 repetitions reported as sampling.",
  design="§5.C18"),
 "C21": dict(
  category="exploration",
  technique="bounded exhaustive enumeration of typed-AST grammars x all accepted inputs <=4; reflection walk calling every accessor of every node",
  text="4752 annotated grammars in 8 shapes (fields f=/f+=, optional, lists with/without separators, nested choices, categories via %interface, injected tokens, nullable arrows, inline arrows) x 8 option variants, generated with eventBased+eventFields+eventAST, built, and for every accepted input <=4 tokens the tree is walked: every To<Name> conversion and every exported zero-argument accessor is called (panics recovered); required accessors must return a valid node / non-empty list, returned nodes lie within the declared selector (categories expanded) and are children of the receiver, every non-injected child is returned by some accessor.",
  note="Build cost bounds the number of grammars per run (18 seed grammars, one per mechanism, always run first; budgeted prefix reported). Declarations come from the same compile, so over-approximated declarations are not detected.",
  design="§5.C21"),
 "C22": dict(
  category="fault_enumeration",
  technique="deviation-bounded exhaustive mutation of 35 seed grammars (all 1-token edits; all 2-edit pairs thorough) in crash-containing worker processes",
  text="35 seed grammars (shipped grammars, compiler testdata, 10 feature grammars): the seeds, every byte string <=3 over 18 bytes in 5 contexts, every 1-token delete/duplicate/swap/replace-by-each-of-40-tm-tokens (token boundaries from the real tm lexer), and in thorough all 2-deviation pairs for seeds under 60 tokens, are compiled with compiler.Compile in 16 worker subprocesses: no panic, no log.Fatal/os.Exit, no hang, and every status error has 0<=Offset<=EndOffset<=len and Line/Column equal to the position of Offset.",
  note="log.Fatal is intercepted through the log writer to name the calling function; real process deaths are attributed by the shard protocol and re-run alone before being reported.",
  design="§5.C22"),
 "C23": dict(
  category="model_checking",
  technique="stateless exploration of goroutine schedules (deviation-bounded DFS over a controlled scheduler on testing/synctest) of the real language server over all message histories, plus a free-running -race pass",
  text="The real startLS runs over an in-memory transport inside a synctest bubble; sender, receiver (slow client) and every handler goroutine park at hooked points (6 in ls/server.go). All histories of depth 1-2 over two documents and depth 3 over one (open/change/empty change/close/definition x 6 contents x 6 positions) x all schedules with <=2 (<=1 at depth 3) deviations from the default: server never dies, exactly one publishDiagnostics per open/change with that version in request order, diagnostics equal a direct compile converted by an independent UTF-16 routine and lie inside the document, definition answers computed from the latest content, one observation sequence per history across schedules; failing schedules are replayed twice. The same histories run free under -race.",
  note="Interleavings are controlled at the hook points and transport steps only; jsonrpc2's write mutex is modelled by the scheduler (sync.Mutex is not durably blocking for synctest). $/cancelRequest and client disconnects are not in the alphabet.",
  design="§5.C23"),
 "C28": dict(
  category="exploration",
  technique="exhaustive enumeration of all symbol spellings <=3 (unquoted) / <=2 (quoted) and all pairs through ident.Produce and compiler.Compile",
  text="Every unquoted name <=3 over {a,B,_,-,1} admitted by the tm ID rule and every quoted name with content <=2 over {a,B,_,-,1,+,\\,',\",e-acute} (241 spellings, 316 declarations) through ident.Produce in all 4 styles, declared alone as terminal and as nonterminal, and all unordered pairs declared together: a successful compile implies every Syms[i].ID matches ^[A-Za-z_][A-Za-z0-9_]*$ and no two symbols share an ID (otherwise an error must have been reported).",
  note="ident.Produce itself still returns the empty string for names without alphanumerics (two known findings); the compiler now rejects such symbols.",
  design="§5.C28"),
 "C11": dict(
  category="exploration",
  technique="bounded enumeration of lexer grammars (rule sets by size + hand-written families) x rotating option subsets x all inputs <=4/5 through generated Go lexers vs an independent longest-match reference",
  text="236 lexer-only grammars (145 strided samples of every (rules<=4, nodes) level of the C09 enumerator with 7 rotating decorations: (space) rules, shared tokens, explicit invalid_token, two start conditions switched by lexer actions, (class)+keyword specialisation; 91 hand-written grammars for keyword hash buckets, large Unicode maps, priorities, backtracking) are generated, built and run on every input <=4 (5 thorough) over {a,b,A,space,\\n,e-acute,emoji,0xff} plus CR words; each of the 32 subsets of {tokenLine,tokenColumn,scanBytes,nonBacktracking,caseInsensitive} is exercised (all 32 per grammar in thorough). Token kind, byte offsets, line, column, keyword specialisation, skipped space tokens, invalid-token spans with forced progress, EOI repetition and tiling are compared with a derivative-based reference that shares no code with lex/ or the templates.",
  note="Rule sets are stride samples of the enumeration (build cost); zero-width {eoi} rules are excluded (statement silent).",
  design="§5.C11"),
 "C13": dict(
  category="exploration",
  technique="bounded exhaustive enumeration of extended-notation rule bodies; bounded language equality between a denotational evaluator and the compiler's expanded rules",
  text="Every rule body of depth<=2 over leaves {ta,tb,X,set(ta|tb),set(~ta),(?= X)} with ?, |, sequence, *, +, separated + and * (23,874 bodies), depth 3 with one leaf and all depth-3 operator shapes with 2-4 leaves under fixed labelings, compiled with the real compiler.Compile (and a second layer that builds syntax.Model directly to reach right-recursive lists): Lang_6 of S and of a second input computed by structural recursion must equal the least-fixpoint language of Parser.Rules.",
  note="Depth-3 bodies with 2-4 leaves are covered for every operator shape but not every leaf labeling in quick (more in thorough).",
  design="§5.C13"),
 "C14": dict(
  category="exploration",
  technique="bounded exhaustive enumeration of templated grammars (predicates, argument forms, flag declarations, lookahead flags); denotational template evaluation vs instantiated rules",
  text="Five families (all predicates of <=3 primaries over !,&&,||,==,!= in 4 placements; every argument form +F,~F,F:G, by-name propagation, defaults; global and inline flags; chains and recursion through 3 templated nonterminals; lookahead flags through <=2 intermediates): 27,626 grammars quick / 190,399 thorough. For every instantiated nonterminal Lang_5 must equal the template's denotation under the valuation its name encodes, inputs derive their default-parameter language, and rejected grammars must carry the predicted diagnostic.",
  note="param-typed parameters and set(N<args>) are not enumerated.",
  design="§5.C14"),
 "C15": dict(
  category="exploration",
  technique="bounded exhaustive enumeration of grammars x set expressions / named-set systems vs textbook fixpoints",
  text="Reduced grammars of the tiny scope x 5 input configurations x {no error terminal, error} x every atom (t, X, first/last/follow/precede), complement and compound expression as %generate (20 per text), every <=2-literal expression over 3 hand-written grammars, all systems of 1-3 mutually/self-referring named sets, and set(...) inside rules: the resolved terminal sets must equal first/last/follow/precede/any fixpoints over the rules reachable from the first eoi input combined with plain set algebra; a self-dependent complement must be rejected; afterErr = follow(error).",
  note="Complement universe and eoi handling follow the code where the README is silent (recorded as assumptions in the evidence). %assert is collected but never evaluated by the compiler (noted, not a violation: statement silent).",
  design="§5.C15"),
 "C16": dict(
  category="exploration",
  technique="bounded enumeration of rule shapes x action placements through generated parsers; recorded reference values vs an expansion-level reference model",
  text="Rule bodies of 1-3 items from 19 item shapes (optionals, groups, nested choices with aliases, lists, sets, typed nonterminals, repeated symbols, lookaheads) x action placements (end, every gap, one gap, mid-rule only) plus rule pairs with identical action text; typed terminals whose value is 100+offset and a space rule make values, offsets and indices distinguishable. Every $name, $N, ${x.offset}, ${x.endoffset}, ${self[N]...}, first()/last() visible to each action is recorded by the generated parser on every sentence <=5 tokens and compared with the value/position of that symbol in the expansion (nil / -1 when absent).",
  note="162 grammars quick / 2,337 thorough (build-bound). Values of lists/sets and positions of empty lists are unspecified and not compared. Two known findings (adjacent actions, first()/last() on helper symbols).",
  design="§5.C16"),
 "C19": dict(
  category="model_checking",
  technique="bounded enumeration of recovery grammars (error at every position) x all inputs <=5/6 through generated parsers; safety oracle plus differential against the same grammar without recovery",
  text="644 statement-list base grammars x error inserted at or replacing every position (<=2 placements; 83,103 candidates; 240 quick / 3,000 thorough by deterministic strata) with rotating .recoveryScope / %inject invalid_token / optimizeTables variants, every rule annotated; every string <=5 (6) over {a,b,c,#,space} with a recovering and a stopping handler: the parse returns (step budget, hang only believed after a solo re-run), handler offsets lie in the input and never decrease, the first call is at the first non-viable token, and on sentences there are no handler calls and the events equal those of the twin grammar without error rules. Shipped tm and js parsers on all 1-token deletions/duplications of seed texts.",
  note="states = distinct (grammar, mode, handler-call sequence, verdict); the grammar space is stride-sampled (build cost).",
  design="§5.C19"),
 "C29": dict(
  category="model_checking",
  technique="exhaustive enumeration of every cancellation moment relative to parser progress for generated and shipped cancellable parsers",
  text="Generated list/value/lookahead parsers in 8 option sets (cancellableFetch, tokenStream, optimizeTables) on inputs of 1,100-1,600 tokens and the shipped js/tm/test parsers: the context is cancelled synchronously when the progress clock (tokens delivered, counted by a lexer action; listener calls for shipped parsers) reaches s, for EVERY s in 0..end+3 (every 8th plus poll boundaries +-2 for shipped parsers in quick): the result is ctx.Err() with an event prefix of the uncancelled run, or exactly the uncancelled result and events; at most 0x200+1+(lookahead invocations) further tokens are delivered after cancellation (observed maximum exactly 512).",
  note="Event lists are compared through a 64-bit hash chain; shipped lexers cannot be hooked, so their bound is measured through listener positions with +64 slack.",
  design="§5.C29"),
 "C17": dict(
  category="exploration",
  technique="pairwise-complete (quick) / exhaustive (thorough) exploration of the option lattice over 38 feature grammars; generate in crash-containing workers, go build of every distinct output",
  text="38 feature grammars (one per feature: mid-rule actions, typed values, (class) rules, start conditions, backtracking, error recovery, lookaheads, recursive lookaheads, lalr(2), templates, sets, %inject, %flag, %interface, extraTypes, fileNode, odd symbol names, state markers, no-eoi and multiple inputs ...) x option rows: default, all 12 parser options on, and a deterministic greedy covering array of all legal 2-way interactions of 20 boolean options (632 cases, 28,348 pairs) in quick; every subset of the 12 parser options per grammar in thorough (141,792 cases, built in order of distance from the corners). Each case is compiled and generated in a worker subprocess (log.Fatal named by caller), outputs are de-duplicated by content and every distinct output is built with go build ./... in a scratch module.",
  note="'All accepted grammars' is approximated by feature-minimal grammars x option subsets; interactions of >=3 options with a specific feature are reached by the all-on row and the thorough prefix only. Non-boolean options and other targets are not enumerated; nothing is executed.",
  design="§5.C17"),
 "C30": dict(
  category="exploration",
  technique="bounded exhaustive enumeration of grammars with writeBison; the emitted .y text is read back and compared with the rules and precedence the tables were built from",
  text="(a) gramenum CFGs x 10-13 %left/%right/%nonassoc blocks x %prec markers (incl. on %empty rules) x input configurations, (b) rule bodies 'tc <shape> td' for every extended-notation shape of depth<=2 over 9 atoms (terminal, nonterminal, set, complement set, mid-rule action, (?= L), (?= !L), state marker) with 7 unary constructors, sequence and nested choice, with/without eventBased and %prec, plus templated forms: a 60-line reader of the generated .y must yield exactly Parser.Rules in order (LHS, RHS symbols incl. extracted mid-rule nonterminals, %prec) and precedence lines equal to Parser.Prec; each terminal declared once. 11,336 cases quick, 188,224 thorough.",
  note="Action text, %start lines and Bison's own acceptance of the file are not checked.",
  design="§5.C30"),
})
NOT_APPLICABLE_REASON = {}
