# Per-property manifest data. mkmanifest.py turns this into MANIFEST.json; a property is
# claimed only if cmd/<id>/ exists, otherwise it is listed under not_applicable ("not built yet").
CHECKS = {
 "C26": dict(
  category="exploration",
  technique="bounded exhaustive enumeration of all digraphs (n<=4, n=5 thorough) against Floyd-Warshall reference",
  text="Every directed graph with <=4 vertices (self-loops, 3 adjacency orders, multigraphs n<=3; n=5 without self-loops in thorough) is run through Tarjan, Transpose, Matrix.Closure/Graph and LongestPath and compared with a boolean Floyd-Warshall reference: component partition = mutual reachability, reverse topological report order, closure = reachable pairs, transpose = edge multiset reversal, longest path nil iff cyclic and of DP-maximal length. Complete within the stated vertex bound.",
  note="Nothing beyond n<=5 vertices is claimed; reference is 30 lines of boolean matrix code.",
  design="§5.C26"),
}
CHECKS.update({
 "C01": dict(
  category="model_checking",
  technique="bounded exhaustive enumeration of grammars x input configs x table options x all token strings; explicit-state run of the table-driven parser vs a CFG language oracle",
  text="Layer A: every reduced grammar of the scope (<=2-3 nonterminals, 2-3 terminals, <=4-5 rules, RHS<=2-3) x 5 input configurations (eoi/no-eoi, several inputs) x 6 subsets of optimizeTables/defaultReduce/minimizeDFA that lalr.Compile accepts without conflicts is run on EVERY token string of length<=5 through a line-by-line transcription of the generated parser loop; accept/reject, consumed prefix for no-eoi inputs and the error token index must equal a dynamic-programming CFG oracle (Lang_L, viable prefixes); non-termination is detected by exact configuration repeat. Layer B (generated Go code, real lexer+parser built with go build) binds the transcription to the templates.",
  note="Complete within the stated scope and L; the interpreter is a model of go_parser.go.tmpl validated against generated code by Layer B (traces_validated_against_impl). Grammars with precedence, lookaheads, lalr(k), recovery are C04/C08/C07/C19.",
  design="§5.C01"),
 "C03": dict(
  category="exploration",
  technique="bounded exhaustive enumeration of grammars; state-by-state comparison with an independent canonical LR(1)-merge reference construction",
  text="Every rule set of the scope (raw: unreachable, unproductive, undefined, cyclic and nullable nonterminals included) x 5 input configurations x %expect variations is compiled with lalr.Compile and compared with a textbook LALR(1) automaton (LR(1) item sets merged by kernel): isomorphic state graphs from every input state, final states, LR(0) shortcut only where the statement allows it, every (state, terminal) action, exact SR/RR counts, error iff counts differ from expectations, and exactly the conflicting rules named in the diagnostics.",
  note="Reference shares no algorithm with lalr/compile.go (DeRemer-Pennello over goto transitions). Precedence resolution is C04. One lenient spot: an input state may consult lookahead where the LR(0) shortcut would be permitted (counted in evidence).",
  design="§5.C03"),
 "C05": dict(
  category="exploration",
  technique="bounded exhaustive enumeration of grammars; every (state, symbol) cell decoded from both encodings and compared",
  text="For every rule set of the scope (conflicting grammars included) x input configurations x precedence variants with %nonassoc x defaultReduce x minimizeDFA, plus scaled families (wide/chain/expr up to 24 terminals), every (state, terminal) action, every defined (state, nonterminal) goto and every terminal gotoState is decoded from the displacement encoding with the template's lookup code and compared with the default encoding; with defaultReduce only 'plain error -> the state's most frequent reduction' is allowed, %nonassoc errors must stay errors and nothing may become a shift.",
  note="Decode functions are transcriptions of the six-line lookups in go_parser.go.tmpl (bound to the template by C01 Layer B).",
  design="§5.C05"),
 "C06": dict(
  category="model_checking",
  technique="bounded exhaustive enumeration of grammars x input configs; lock-step product exploration of the unminimized and minimized parser automata on all token strings",
  text="Every rule set of the scope (conflicting grammars included) x 4-8 input configurations (several inputs, no-eoi, duplicated no-eoi inputs as created by synthetic lookahead inputs) x rule attributes {all distinct, all equal} x optimizeTables is compiled with MinimizeDFA off and on; both table sets are run from every input index (the entry state the generated Parse functions use) on every token string <= L in lock-step: same shifts, reductions of rules with equal (lhs, length, action, type), same accept/error outcome and position, same non-termination.",
  note="Traces come from internal/tabinterp (transcription of the parser template, validated against generated code by C01 Layer B).",
  design="§5.C06"),
})
NOT_APPLICABLE_REASON = {}
