#!/opt/veriftools/pyvenv/bin/python
import json, jsonschema, glob, sys
m = json.load(open('/verif/MANIFEST.json'))
jsonschema.validate(m, json.load(open('/root/.vp/MANIFEST.schema.json')))
es = json.load(open('/root/.vp/EVIDENCE.schema.json'))
bad = 0
for c in m['checks']:
    p = c['evidence_file']
    try:
        e = json.load(open(p))
        jsonschema.validate(e, es)
        if e['level'] != c['level_claimed']['category']:
            print('LEVEL MISMATCH', p); bad += 1
    except Exception as ex:
        print('BAD', p, str(ex)[:200]); bad += 1
print('manifest ok; claimed', len(m['checks']), 'bad evidence', bad)
sys.exit(1 if bad else 0)
