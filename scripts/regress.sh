#!/bin/bash
# regress.sh [record]: replays every recorded violation under regress/ (inputs that violated a
# property on SOME tree: the unrepaired repository, a mutant or a seeded change) against the
# current tree and compares the outcome with regress/EXPECTED.tsv ("passes" for repaired findings
# and foreign trees, "still fails" for the known findings). `record` rewrites EXPECTED.tsv.
cd "$(dirname "$0")/.."
mode="${1:-check}"
tmp=$(mktemp)
for f in regress/*.json; do
  out=$(./run replay "$f" 2>&1 | grep "^REPLAY" | tail -1)
  case "$out" in
    *": passes") st=passes;;
    *"still fails"*) st="still fails";;
    *) st="error";;
  esac
  printf '%s\t%s\n' "$(basename "$f")" "$st" >> "$tmp"
done
if [ "$mode" = record ]; then mv "$tmp" regress/EXPECTED.tsv; wc -l regress/EXPECTED.tsv; exit 0; fi
if diff <(sort regress/EXPECTED.tsv) <(sort "$tmp") > "$tmp.diff"; then echo "regress: $(wc -l < "$tmp") replays as expected"; rm -f "$tmp" "$tmp.diff"; exit 0; fi
echo "regress: outcomes differ from regress/EXPECTED.tsv"; cat "$tmp.diff"; rm -f "$tmp" "$tmp.diff"; exit 1
