#!/usr/bin/env python3
# prints the prompt given to a fresh seeding sub-agent for one property (nothing from /verif but the property text)
import json, sys
pid = sys.argv[1]
rnd = sys.argv[2] if len(sys.argv) > 2 else "1"
wt = f"/tmp/seed-{pid}" if rnd == "1" else f"/tmp/seed{rnd}-{pid}"
for l in open('/verif/properties.jsonl'):
    p = json.loads(l)
    if p['id'] == pid:
        break
extra3 = "Two earlier rounds of such changes have already been produced for this property, so avoid the most natural targets. Look at: the interaction of two or more options (e.g. minimizeDFA, optimizeTables, defaultReduce, recursiveLookaheads, cancellable, tokenStream, fixWhitespace, eventFields, scanBytes, caseInsensitive, nonBacktracking, as far as they matter for this property); rarely used grammar features (templates and flags, lookahead predicates, %inject, state markers, no-eoi and multiple inputs, precedence, separators, sets, start conditions); where the property is about generated code, the templates rather than the library; behaviour at the second or third use within one process or on one object; and sizes beyond the usual small cases (long rules, many states or symbols, deep nesting, multi-byte input). If the project already violates the property on its unmodified tree for some input you come across, describe that separately in NOTES.md (it is valuable), but still deliver A and B. "
extra = "" if rnd == "1" else extra3 if rnd == "3" else "Go beyond the most obvious single-comparison flips: aim for mechanisms such as state carried between two uses of the same object or process (caches, reused buffers or parser/lexer values, package-level variables), two cooperating sites of which only one is changed, an option combination that no shipped grammar uses, or an input shape at a size or structure boundary (table width, nesting depth, number of states/symbols, multi-byte characters). "
print(f"""You are helping to evaluate a verification effort by playing the adversary. You work ONLY inside the git worktree {wt} (a checkout of the Go project inspirer/textmapper: a LALR(1) parser + lexer generator; `go.mod` says go 1.25). Do not read or write anything under /verif or /repo, and do not look at other /tmp/seed-* or /tmp/wt-* directories. Shell env for every go command: `export GOFLAGS=-mod=mod GOPROXY=off` and use plain `go` (no network is available; everything needed is cached).

Here is a semantic property that the project is supposed to satisfy:

  Title: {p['title']}
  Statement: {p['statement']}
  Quantifier: {p['quantifier']['text']}
  Code it is anchored in: {', '.join(p['anchors']['files'])}

Task: produce TWO independent changes (call them A and B) to the project's non-test source code (Go files or the embedded templates under gen/templates; if you change a template whose output is committed, e.g. parsers/*/parser.go, regenerate or leave shipped parsers consistent so the tests pass), each of which
  1. BREAKS the property above for some inputs (a realistic bug a developer could introduce: wrong comparison direction, off-by-one, missing case, stale cache/shared mutable state, aliasing, a wrong condition in one of two cooperating sites ...),
  2. still compiles (`go build ./...`) and keeps the ENTIRE existing test suite passing: `go test -vet=off -count=1 ./...` (run it with the change applied; it takes a few minutes — all packages must pass),
  3. needs something specific to manifest — a particular grammar shape, option combination, input, multi-step sequence, interleaving or fault — NOT something ordinary use would expose at once. Prefer subtle changes that only bite for a narrow class of inputs (but a class that a systematic exploration of small cases could in principle reach; tell me the smallest triggering case you know).
{extra}For each change also write a demonstration: a small Go test file (or small program) that FAILS with the change applied and PASSES on the unmodified tree, exercising the project's real API (e.g. lalr.Compile, compiler.Compile + gen.Generate, lex.Compile, the shipped parsers...).

Deliverables, in {wt}/OUT/ (create it): A.patch and B.patch (each `git diff` of ONLY the source change against the worktree HEAD, applying independently with `git apply`), A_demo_test.go / B_demo_test.go (say in a header comment in which package directory each must be placed and how to run it), and NOTES.md (for each change: what it breaks, what it needs in order to manifest, the smallest triggering case, the exact commands you ran and their results: build, full test suite with the change, demo with/without the change). Leave the worktree itself clean at the end (`git checkout -- . && git clean -fd` except OUT/). Final message: a short summary of A and B.""")
