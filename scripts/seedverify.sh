#!/bin/bash
# seedverify.sh <property> <seed-out-dir> <letter A|B> <demo-package-dir> : confirm a seeded change in a scratch
# worktree of /repo HEAD: patch applies, builds, full test suite passes, demo fails with / passes without;
# then run the property's quick check against the patched worktree. Prints a JSON summary line.
set -u
pid="$1"; out="$2"; L="$3"; pkg="$4"
export GOFLAGS=-mod=mod GOPROXY=off
wt="$(mktemp -d /tmp/sv-XXXXXX)"; rmdir "$wt"
git -C /repo worktree add -q --detach "$wt" HEAD || exit 2
res() { echo "SEED ${SV_TAG:-}$pid-$L: $*"; }
if ! git -C "$wt" apply "$out/$L.patch" 2>/tmp/sv-apply.err; then res "patch does not apply: $(head -1 /tmp/sv-apply.err)"; git -C /repo worktree remove --force "$wt"; exit 1; fi
(cd "$wt" && go build ./... ) >/tmp/sv-build.log 2>&1 || { res "does not build"; git -C /repo worktree remove --force "$wt"; exit 1; }
demo="zz_seed_${L}_demo_test.go"
cp "$out/${L}_demo_test.go" "$wt/$pkg/$demo"
(cd "$wt" && go test -vet=off -count=1 "./$pkg/" >/tmp/sv-demo-with.log 2>&1); with=$?
rm "$wt/$pkg/$demo"
(cd "$wt" && go test -vet=off -count=1 ./... >/tmp/sv-suite.log 2>&1); suite=$?
check_out="$(cd /verif && VERIF_REPO="$wt" VERIF_BUDGET_S=${SV_BUDGET_S:-200} ./run "${SV_CHECK:-$pid}" quick 2>&1)"; code=$?
viol="$(echo "$check_out" | grep -m3 '^VIOLATION' | cut -c1-260)"
git -C "$wt" checkout -q -- . ; cp "$out/${L}_demo_test.go" "$wt/$pkg/$demo"
(cd "$wt" && go test -vet=off -count=1 "./$pkg/" >/tmp/sv-demo-without.log 2>&1); without=$?
git -C /repo worktree remove --force "$wt"
rm -rf "/verif/bin/alt-$(echo "$wt" | sha1sum | cut -c1-10)"
res "suite_exit=$suite demo_with_patch_exit=$with demo_without_exit=$without check_exit=$code"
echo "$viol"
echo "$check_out" | tail -1 | cut -c1-200
