#!/usr/bin/env python3
# seedstore.py <property> <letter> <demo-pkg-dir> <caught_by|MISSED> <needs text> : archive a confirmed seeded change
import sys, os, shutil, json, subprocess
pid, L, pkg, caught, needs = sys.argv[1:6]
rnd = os.environ.get("SEED_ROUND", "1")
src = f"/tmp/seed-{pid}/OUT" if rnd == "1" else f"/tmp/seed{rnd}-{pid}/OUT"
name = L if rnd == "1" else {"A": "C", "B": "D"}[L] if rnd == "2" else {"A": "E", "B": "F"}[L]
dst = f"/verif/seeded/{pid}-{name}"
os.makedirs(dst, exist_ok=True)
if needs == "-":
    # take the "needs ..." paragraph of this change from the seeder's NOTES.md
    import re
    notes = open(f"{src}/NOTES.md").read()
    m = re.search(r'^(#+\s*|\*\*)?(Change\s+)?B\b(?!\.patch)', notes, re.M)
    half = notes[:m.start()] if (m and L == "A") else (notes[m.start():] if m else notes)
    paras = [q for q in re.split(r'\n\s*\n', half) if re.search(r'\bneeds?\b', q, re.I)]
    needs = re.sub(r'\s+', ' ', paras[0]).strip()[:700] if paras else "see notes.md"
if os.path.exists(f"{src}/NOTES.md"):
    shutil.copy(f"{src}/NOTES.md", f"{dst}/notes.md")
shutil.copy(f"{src}/{L}.patch", f"{dst}/patch.diff")
demo = f"{src}/{L}_demo_test.go"
shutil.copy(demo, f"{dst}/demo_test.go.txt")
for extra in os.listdir(src):
    if extra.startswith(f"{L}_demo_") and extra.endswith(".go") and extra != f"{L}_demo_test.go":
        shutil.copy(f"{src}/{extra}", f"{dst}/{extra}.txt")
head = subprocess.run(["git", "-C", "/repo", "rev-parse", "--short", "HEAD"], capture_output=True, text=True).stdout.strip()
meta = {
    "property": pid,
    "breaks": pid,
    "needs_to_manifest": needs,
    "demo": f"copy demo_test.go.txt to <repo>/{pkg}/zz_seed_demo_test.go and run: go test -vet=off -count=1 ./{pkg}/",
    "confirmed": f"scripts/seedverify.sh {pid} <seed OUT dir> {L} {pkg} on a scratch worktree of /repo at {head}: patch applies, go build ./... ok, full test suite (go test -vet=off -count=1 ./...) passes with the change, demo fails with the change and passes without it",
    "caught_by": caught,
    "check_command": f"git -C /repo apply /verif/seeded/{pid}-{name}/patch.diff && ./run {caught.split()[0] if caught != 'MISSED' else pid} quick ; git -C /repo checkout -- .",
}
json.dump(meta, open(f"{dst}/meta.json", "w"), indent=1)
print("stored", dst)
